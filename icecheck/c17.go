package main

import (
	"fmt"
	"go/ast"
	"go/token"
	"go/types"
	"math/big"
	"sort"
	"strings"
)

func init() { register("C17", checkC17) }

// enumTable runs the table engine on f and compares "subject == const ->
// returned constant" with want (keys are constant names/values; "other" is
// the value for a subject different from every listed constant).
func enumTable(p *Prog, r *Report, f *Func, what string, classify func(a *TAtom) (string, bool), vars []SemVar, oracle func(v map[string]string) string) {
	t := p.NewTable(f)
	t.Run()
	res := t.Compare(TableSpec{Vars: vars, Classify: classify, Oracle: oracle,
		Outcome: func(pa *TPath) string { return strings.Join(pa.Results, ",") }})
	for _, s := range res.Samples {
		r.OK(what+" row "+s, p.Pos(f.Body.Pos()), "matches the specified table")
	}
	if len(res.Mismatches) == 0 && len(res.Samples) < res.Rows {
		r.OK(fmt.Sprintf("%s: all %d rows", what, res.Rows), p.Pos(f.Body.Pos()), "every row matches")
	}
	for _, m := range res.Mismatches {
		r.Fail(what+" table", p.Pos(f.Body.Pos()), m)
	}
}

func checkC17(p *Prog, r *Report) {
	// ---- R17.1 constant tables -------------------------------------------
	r.Rule("R17.1", "Preference tables are the specified constants: type preference host 126 / prflx 110 / srflx 100 / relay 0; relay protocol preference tls 0 / tcp 1 / dtls 2 / otherwise 3; TCP direction preference per RFC 6544 §4.2; local preference = relay protocol preference for relays, 2^13*direction + 8191 for TCP, 65535 otherwise.", 10)
	if f := p.Fn("CandidateType.Preference"); r.Anchor("CandidateType.Preference", f != nil) {
		enumTable(p, r, f, "CandidateType.Preference",
			func(a *TAtom) (string, bool) {
				if a.Kind == "enum" {
					if id, ok := unparen(a.X).(*ast.Ident); ok && f.Decl.Recv != nil && len(f.Decl.Recv.List[0].Names) == 1 && p.ObjOf(id) == p.ObjOf(f.Decl.Recv.List[0].Names[0]) {
						return "type", false
					}
				}
				return "", false
			},
			[]SemVar{{"type", []string{"CandidateTypeHost", "CandidateTypePeerReflexive", "CandidateTypeServerReflexive", "CandidateTypeRelay", "CandidateTypeUnspecified", "other"}}},
			func(v map[string]string) string {
				return map[string]string{"CandidateTypeHost": "126", "CandidateTypePeerReflexive": "110", "CandidateTypeServerReflexive": "100",
					"CandidateTypeRelay": "0", "CandidateTypeUnspecified": "0", "other": "0"}[v["type"]]
			})
	}
	if f := p.Fn("relayProtocolPreference"); r.Anchor("relayProtocolPreference", f != nil) {
		enumTable(p, r, f, "relayProtocolPreference",
			func(a *TAtom) (string, bool) {
				if a.Kind == "enum" {
					if id, ok := unparen(a.X).(*ast.Ident); ok && len(f.Decl.Type.Params.List) == 1 && p.ObjOf(id) == p.ObjOf(f.Decl.Type.Params.List[0].Names[0]) {
						return "proto", false
					}
				}
				return "", false
			},
			[]SemVar{{"proto", []string{`"tls"`, `"tcp"`, `"dtls"`, `"udp"`, "other"}}},
			func(v map[string]string) string {
				return map[string]string{`"tls"`: "0", `"tcp"`: "1", `"dtls"`: "2", `"udp"`: "3", "other": "3"}[v["proto"]]
			})
	}
	lp := p.Fn("candidateBase.LocalPreference")
	if r.Anchor("candidateBase.LocalPreference", lp != nil) {
		// the direction-preference closure
		var dir *Func
		for _, l := range lp.Lits {
			dir = l
		}
		if r.Anchor("LocalPreference direction closure", dir != nil && len(lp.Lits) == 1) {
			enumTable(p, r, dir, "TCP direction preference",
				func(a *TAtom) (string, bool) {
					if a.Kind != "enum" {
						return "", false
					}
					if p.atomIsCall(dir, a.X, "ice.candidateBase.Type") || p.IsField(a.X, "candidateBase.candidateType") {
						return "type", false
					}
					if p.IsField(a.X, "candidateBase.tcpType") || p.atomIsCall(dir, a.X, "ice.candidateBase.TCPType") {
						return "tcptype", false
					}
					return "", false
				},
				[]SemVar{{"type", []string{"CandidateTypeHost", "CandidateTypeRelay", "CandidateTypePeerReflexive", "CandidateTypeServerReflexive", "CandidateTypeUnspecified", "other"}},
					{"tcptype", []string{"TCPTypeActive", "TCPTypePassive", "TCPTypeSimultaneousOpen", "TCPTypeUnspecified", "other"}}},
				func(v map[string]string) string {
					hostLike := map[string]string{"TCPTypeActive": "6", "TCPTypePassive": "4", "TCPTypeSimultaneousOpen": "2"}
					reflLike := map[string]string{"TCPTypeSimultaneousOpen": "6", "TCPTypeActive": "4", "TCPTypePassive": "2"}
					var m map[string]string
					switch v["type"] {
					case "CandidateTypeHost", "CandidateTypeRelay":
						m = hostLike
					case "CandidateTypePeerReflexive", "CandidateTypeServerReflexive":
						m = reflLike
					default:
						return "0"
					}
					if x, ok := m[v["tcptype"]]; ok {
						return x
					}
					return "0"
				})
		}
		// the outer structure
		t2 := p.NewTable(lp)
		t2.Run()
		okRows := 0
		seenRows := map[string]bool{}
		for _, pa := range t2.Paths {
			relay, tcp := "", ""
			bad := ""
			for _, d := range pa.Hist {
				switch {
				case d.Atom.Kind == "enum" && (p.IsField(d.Atom.X, "candidateBase.candidateType") || p.atomIsCall(lp, d.Atom.X, "ice.candidateBase.Type")):
					switch d.Val {
					case "==CandidateTypeRelay":
						relay = "true"
					case "!=CandidateTypeRelay":
						relay = "false"
					default:
						bad = d.Atom.Key + d.Val
					}
				case d.Atom.Kind == "bool" && p.atomIsCall(lp, d.Atom.X, "ice.NetworkType.IsTCP"):
					tcp = d.Val
				default:
					bad = d.Atom.Key + "=" + d.Val
				}
			}
			got := "?"
			if len(pa.Results) == 1 {
				got = pa.Results[0]
			}
			want := ""
			switch {
			case bad != "":
				r.Fail("LocalPreference structure", pa.EndPos, "local preference depends on an unexpected condition "+bad)
				continue
			case relay == "true":
				want = "relayLocalPreference"
				if strings.HasSuffix(got, ".relayLocalPreference") {
					got = want
				}
			case tcp == "true":
				want = "tcp-formula"
				if !strings.HasSuffix(got, ".relayLocalPreference") && got != "65535" {
					got = want
				}
			default:
				want = "65535"
			}
			if got == want {
				seenRows[want] = true
			}
			if r.Check(got == want, fmt.Sprintf("LocalPreference row relay=%s tcp=%s", relay, tcp), pa.EndPos, "returns "+want, "returns "+got+", the property requires "+want) {
				okRows++
			}
		}
		for _, w := range []string{"relayLocalPreference", "tcp-formula", "65535"} {
			if !seenRows[w] {
				r.Fail("LocalPreference row "+w, p.Pos(lp.Body.Pos()), "no path of LocalPreference yields the "+w+" case required by the property")
			}
		}
		// the TCP formula: 2^13*direction + 8191
		walkBody(lp, func(n ast.Node) bool {
			rs, ok := n.(*ast.ReturnStmt)
			if !ok || len(rs.Results) != 1 {
				return true
			}
			if _, isBin := unparen(rs.Results[0]).(*ast.BinaryExpr); !isBin {
				return true
			}
			lf := p.Linear(rs.Results[0], func(e ast.Expr) string {
				if id, ok := e.(*ast.Ident); ok {
					if o := p.ObjOf(id); o != nil {
						if d, ok := p.SingleDef(lp, o); ok {
							if c, ok := p.constBig(d.Rhs); ok {
								return "const:" + c.String()
							}
							if cl, ok := unparen(d.Rhs).(*ast.CallExpr); ok {
								if _, isLit := unparen(cl.Fun).(*ast.FuncLit); isLit {
									return "direction"
								}
							}
						}
					}
				}
				return p.Canon(e)
			})
			// the constant 8191 may appear as a named local (coefficient 1) or folded into the constant term
			ok2 := lf.OK && len(lf.Terms) == 2 && lf.Terms["direction"] != nil && lf.Terms["direction"].String() == "8192" &&
				((lf.Terms["const:8191"] != nil && lf.Terms["const:8191"].String() == "1") || (lf.Terms[""] != nil && lf.Terms[""].String() == "8191"))
			r.Check(ok2, "TCP local preference formula", p.Pos(rs.Pos()), "2^13*direction + 8191", "linear form is "+lf.String()+" "+lf.Why+", expected 8192*direction + 8191")
			return true
		})
	}
	// defaultLocalPreference
	if o := p.Ice.Types.Scope().Lookup("defaultLocalPreference"); r.Anchor("defaultLocalPreference", o != nil) {
		_ = o
	}

	// ---- R17.2 candidate priority formula --------------------------------
	r.Rule("R17.2", "candidateBase.Priority is the linear form 2^24*TypePreference + 2^8*LocalPreference + (256 - Component), each product computed on 32-bit operands, and the override is returned only when it is non-zero.", 3)
	pr := p.Fn("candidateBase.Priority")
	if r.Anchor("candidateBase.Priority", pr != nil) {
		found := false
		walkBody(pr, func(n ast.Node) bool {
			rs, ok := n.(*ast.ReturnStmt)
			if !ok || len(rs.Results) != 1 {
				return true
			}
			if p.IsField(rs.Results[0], "candidateBase.priorityOverride") {
				facts, _ := p.FactsAtCall(pr, rs)
				ok := facts.Has(func(f Fact) bool {
					return f.Op == "==" && !f.Val && p.IsField(f.X, "candidateBase.priorityOverride") && p.constName(f.Y) == "0"
				})
				r.Check(ok, "Priority: override only when non-zero", p.Pos(rs.Pos()), "guarded by priorityOverride != 0", "the override is returned without the non-zero test")
				return true
			}
			found = true
			lf := p.Linear(rs.Results[0], func(e ast.Expr) string {
				if c, ok := e.(*ast.CallExpr); ok {
					return p.CalleeName(c)
				}
				return p.Canon(e)
			})
			want := map[string]string{"ice.candidateBase.TypePreference": "16777216", "ice.candidateBase.LocalPreference": "256", "ice.candidateBase.Component": "-1", "": "256"}
			ok2 := lf.OK && len(lf.Terms) == len(want)
			for k, v := range want {
				if lf.Terms[k] == nil || lf.Terms[k].String() != v {
					ok2 = false
				}
			}
			r.Check(ok2, "Priority linear form", p.Pos(rs.Pos()), lf.String(), "linear form is "+lf.String()+" "+lf.Why+"; expected 16777216*TypePreference + 256*LocalPreference - Component + 256")
			// widths: every multiplication happens on >= 32-bit operands
			wide := true
			ast.Inspect(rs.Results[0], func(x ast.Node) bool {
				if b, ok := x.(*ast.BinaryExpr); ok && (b.Op == token.MUL || b.Op == token.SHL || b.Op == token.ADD) {
					if bs := bitSize(p.TypeOf(b)); bs != 0 && bs < 32 {
						wide = false
					}
				}
				return true
			})
			r.Check(wide, "Priority arithmetic width", p.Pos(rs.Pos()), "products and sums are computed in >= 32 bits", "a product or sum of the priority formula is computed in fewer than 32 bits")
			return true
		})
		if !found {
			r.Fail("Priority linear form", p.Pos(pr.Body.Pos()), "no return of the formula found")
		}
	}

	// ---- R17.3 guarded unsigned subtraction ---------------------------------
	r.Rule("R17.3", "Every subtraction on unsigned operands in the priority code (TypePreference, LocalPreference, Priority, pair priority) is dominated by a test that the subtrahend does not exceed the minuend, or has constant operands — the type preference stays in 0..126 for every configured TCP offset.", 2)
	r.Except("R17.3: '256 - Component()' in candidateBase.Priority — component IDs are 1..256 by RFC 8445 §5.1.2.1 and the property speaks about 1..255")
	for _, name := range []string{"candidateBase.TypePreference", "candidateBase.LocalPreference", "candidateBase.Priority", "CandidatePair.priority"} {
		f := p.Fn(name)
		if !r.Anchor(name, f != nil) {
			continue
		}
		var rec func(g *Func)
		rec = func(g *Func) {
			walkBody(g, func(n ast.Node) bool {
				var x, y ast.Expr
				var at ast.Node
				switch s := n.(type) {
				case *ast.BinaryExpr:
					if s.Op == token.SUB {
						x, y, at = s.X, s.Y, s
					}
				case *ast.AssignStmt:
					if s.Tok == token.SUB_ASSIGN && len(s.Lhs) == 1 {
						x, y, at = s.Lhs[0], s.Rhs[0], s
					}
				case *ast.IncDecStmt:
					if s.Tok == token.DEC {
						x, at = s.X, s
					}
				}
				if at == nil || !isUnsigned(p.TypeOf(x)) {
					return true
				}
				pos := p.Pos(at.Pos())
				construct := g.Name + ": " + p.Canon(x) + " - " + p.Canon(y)
				construct = strings.ReplaceAll(construct, "#", "@")
				if _, ok := p.ConstVal(x); ok {
					if _, ok2 := p.ConstVal(y); ok2 {
						r.Trivial(g.Name+": constant subtraction", pos, "both operands constant")
						return true
					}
					if cx, _ := p.constBig(x); cx != nil && cx.Cmp(big.NewInt(256)) == 0 {
						if c, ok := unparen(y).(*ast.CallExpr); ok && strings.HasSuffix(p.CalleeName(c), ".Component") {
							r.Trivial(g.Name+": 256 - Component()", pos, "reasoned exception (component IDs are at most 256)")
							return true
						}
					}
				}
				facts, ok := p.FactsAtCall(g, at)
				guarded := ok && facts.Has(func(f Fact) bool {
					// !(x < y)  i.e. x >= y
					return f.Op == "<" && !f.Val && p.Canon(f.X) == p.Canon(x) && y != nil && p.Canon(f.Y) == p.Canon(y)
				})
				r.Check(guarded, g.Name+": unsigned subtraction "+strings.Split(p.Canon(x), "#")[0], pos, "dominated by minuend >= subtrahend",
					"unsigned subtraction "+short(construct, 120)+" is not dominated by a test that the subtrahend does not exceed the minuend: it wraps around for large subtrahends (facts: "+strings.Join(facts.Strings(), "; ")+")")
				return true
			})
			for _, l := range g.Lits {
				rec(l)
			}
		}
		rec(f)
	}
	// TypePreference: returns Type().Preference(), reduced only for TCP
	tp := p.Fn("candidateBase.TypePreference")
	if tp != nil {
		t := p.NewTable(tp)
		t.Event = func(n ast.Node, _ *TEnv) []string {
			// the preference is reduced: "pref -= offset", "pref = pref - offset" or "return pref - offset"
			if as, ok := n.(*ast.AssignStmt); ok && as.Tok == token.SUB_ASSIGN {
				return []string{"reduce"}
			}
			reduce := false
			switch n.(type) {
			case *ast.AssignStmt, *ast.ReturnStmt:
				ast.Inspect(n, func(x ast.Node) bool {
					if be, ok := x.(*ast.BinaryExpr); ok && be.Op == token.SUB {
						if _, c1 := p.ConstVal(be.X); !c1 {
							if _, c2 := p.ConstVal(be.Y); !c2 {
								reduce = true
							}
						}
					}
					return true
				})
			}
			if reduce {
				return []string{"reduce"}
			}
			return nil
		}
		t.Run()
		for _, pa := range t.Paths {
			tcp, zero, wrap, agentNil := "", "", "", ""
			bad := ""
			for _, d := range pa.Hist {
				switch {
				case d.Atom.Kind == "bool" && p.atomIsCall(tp, d.Atom.X, "ice.NetworkType.IsTCP"):
					tcp = d.Val
				case d.Atom.Kind == "enum" && d.Val == "==0" || d.Val == "!=0":
					zero = d.Val
				case d.Atom.Kind == "ord":
					wrap = d.Val
				case d.Atom.Kind == "enum" && p.atomIsCall(tp, d.Atom.X, "ice.candidateBase.agent"):
					agentNil = d.Val
				default:
					bad = d.Atom.Key + "=" + d.Val
				}
			}
			_ = agentNil
			reduced := len(pa.Events) > 0
			switch {
			case bad != "":
				r.Fail("TypePreference structure", pa.EndPos, "type preference depends on an unexpected condition "+bad)
			case zero == "==0":
				r.Check(!reduced && len(pa.Results) == 1 && pa.Results[0] == "0", "TypePreference: zero preference", pa.EndPos, "returns 0", "zero preference path returns "+strings.Join(pa.Results, ","))
			case tcp == "false":
				r.Check(!reduced, "TypePreference: non-TCP is not reduced", pa.EndPos, "unchanged", "the TCP offset is applied to a non-TCP candidate")
			case tcp == "true" && strings.Contains(wrap, "LT") && !strings.Contains(wrap, "EQ") && !strings.Contains(wrap, "GT"):
				// pref < offset: saturate
				r.Check(!reduced, "TypePreference: offset above preference", pa.EndPos, "no subtraction", "subtracts an offset larger than the preference")
			case tcp == "true":
				r.Check(reduced, "TypePreference: TCP is reduced by the offset", pa.EndPos, "offset subtracted", "TCP candidate's type preference is not reduced by the configured offset")
			}
		}
	}

	// ---- R17.4 pair priority ------------------------------------------------
	r.Rule("R17.4", "CandidatePair.priority is (2^32-1)*min(G,D) + 2*max(G,D) + (G>D ? 1 : 0) with operands widened to 64 bits before multiplying, and G is the controlling side's candidate priority (local iff this agent is controlling), so mirrored pairs get the same number on both agents.", 6)
	checkPairPriorityFormula(p, r)

	// ---- R17.5 foundation inputs ---------------------------------------------
	r.Rule("R17.5", "The foundation checksum is computed from candidate type, address and network type only.", 1)
	fo := p.Fn("candidateBase.Foundation")
	if r.Anchor("candidateBase.Foundation", fo != nil) {
		calls := p.CallsTo(fo, false, "hash/crc32.ChecksumIEEE")
		for _, c := range calls {
			var inputs []string
			p.inspectThroughLocals(fo, c.Args[0], func(x ast.Node) bool {
				switch y := x.(type) {
				case *ast.SelectorExpr:
					if fv := p.FieldOf(y); fv != nil {
						inputs = append(inputs, p.FieldName(fv))
						return false
					}
				case *ast.CallExpr:
					nm := p.CalleeName(y)
					if strings.HasPrefix(nm, "ice.candidateBase.") {
						inputs = append(inputs, nm)
						return false
					}
				}
				return true
			})
			set := map[string]bool{}
			for _, i := range inputs {
				switch i {
				case "ice.candidateBase.Type", "candidateBase.candidateType":
					set["type"] = true
				case "candidateBase.address", "ice.candidateBase.Address":
					set["address"] = true
				case "candidateBase.networkType", "ice.candidateBase.NetworkType":
					set["network"] = true
				default:
					set["extra:"+i] = true
				}
			}
			ok := len(set) == 3 && set["type"] && set["address"] && set["network"]
			r.Check(ok, "Foundation checksum inputs", p.Pos(c.Pos()), "type, address, network type", "foundation is computed from "+strings.Join(inputs, ", ")+"; expected exactly type, address and network type")
		}
		if len(calls) == 0 {
			r.Fail("Foundation checksum inputs", p.Pos(fo.Body.Pos()), "no CRC-32 checksum call found")
		}
	}

	// ---- R17.6 which preference applies ---------------------------------------------------------------------
	r.Rule("R17.6", "LocalPreference decides by candidate type first: a relay candidate gets its relay-protocol preference whatever its own transport; only non-relay candidates take the RFC 6544 TCP branch or the default. Foundation() is a pure function of type, address and network type (plus the explicit override): anything else it reads or writes must be reset wherever one of those inputs changes. Priority, TypePreference, LocalPreference and the pair priority keep no state.", 6)
	if f := p.Fn("candidateBase.LocalPreference"); r.Anchor("candidateBase.LocalPreference", f != nil) {
		t := p.NewTable(f)
		t.Run()
		bad, rows := "", 0
		for _, pa := range t.Paths {
			relay := ""
			for _, d := range pa.Hist {
				if d.Atom.Kind == "enum" && p.IsField(d.Atom.X, "candidateBase.candidateType") {
					switch d.Val {
					case "==CandidateTypeRelay":
						relay = "yes"
					case "!=CandidateTypeRelay":
						relay = "no"
					}
				}
			}
			res := stripVarLines(strings.Join(pa.Results, ","))
			isRelayPref := strings.HasSuffix(res, ".relayLocalPreference")
			rows++
			switch {
			case relay == "":
				bad = "a result (" + res + ") is produced before the candidate type was tested against relay"
			case relay == "yes" && !isRelayPref:
				bad = "a relay candidate gets " + res
			case relay == "no" && isRelayPref:
				bad = "a non-relay candidate gets the relay-protocol preference"
			}
		}
		r.Check(bad == "" && rows >= 2, "LocalPreference: relay candidates get the relay-protocol preference", p.Pos(f.Body.Pos()), fmt.Sprintf("%d rows", rows), bad+": a relay reached over TCP/TLS would outrank every UDP relay")
	}
	if f := p.Fn("candidateBase.Foundation"); r.Anchor("candidateBase.Foundation", f != nil) {
		bad := p.cacheIncoherence(f, []string{"candidateBase.foundationOverride", "candidateBase.candidateType", "candidateBase.address", "candidateBase.networkType"},
			func(g *Func) bool {
				return strings.HasPrefix(g.Root().Name, "NewCandidate") || g.Root().Name == "UnmarshalCandidate"
			})
		for fv := range p.Effects(f).Writes {
			bad = append(bad, "Foundation() writes "+p.FieldName(fv)+", which must then be reset wherever the network type or address changes")
		}
		// a written memo is acceptable only if every writer of an input resets it: re-check the writes
		var still []string
		for _, b := range bad {
			still = append(still, b)
		}
		if len(p.Effects(f).Writes) > 0 {
			still = still[:0]
			for fv := range p.Effects(f).Writes {
				for _, g := range p.AllFuncs {
					if g.Body == nil || g == f || strings.HasPrefix(g.Root().Name, "NewCandidate") {
						continue
					}
					eff := p.Effects(g)
					wi := false
					for w := range eff.Writes {
						switch p.FieldName(w) {
						case "candidateBase.candidateType", "candidateBase.address", "candidateBase.networkType", "candidateBase.foundationOverride":
							wi = true
						}
					}
					if wi && !eff.Writes[fv] {
						still = append(still, p.FieldName(fv)+" (memo written by Foundation) is not reset by "+g.Name)
					}
				}
			}
		}
		sort.Strings(still)
		r.Check(len(still) == 0, "Foundation depends only on type, address and network type", p.Pos(f.Body.Pos()), "no stale memo", strings.Join(still, "; ")+": candidates of equal type, address and network type can report different foundations")
	}
	// the priority functions themselves keep no state
	for _, name := range []string{"candidateBase.Priority", "candidateBase.TypePreference", "candidateBase.LocalPreference", "CandidatePair.priority"} {
		f := p.Fn(name)
		if !r.Anchor(name, f != nil) {
			continue
		}
		var ws []string
		for fv := range p.Effects(f).WritesT {
			ws = append(ws, p.FieldName(fv))
		}
		sort.Strings(ws)
		r.Check(len(ws) == 0, name+" is a pure function of the candidate's fields", p.Pos(f.Body.Pos()), "writes nothing", "writes "+strings.Join(ws, ", ")+": a remembered priority goes stale when the role, the override or the resolved network type changes, and the two agents stop ordering pairs identically (a memo needs a reset at every such change; this rule cannot see one)")
	}
	// ---- R17.7 the priority crosses the wire unchanged ----------------------------------------------------
	r.Rule("R17.7", "The PRIORITY attribute of every connectivity check is the sending local candidate's Priority() converted and nothing else, and a peer-reflexive remote candidate takes the attribute's value converted and nothing else (no clamp, scale or default): both agents compute a mirrored pair's priority from the same two numbers.", 5)
	nSend := 0
	for _, f := range p.AllFuncs {
		if f.Body == nil {
			continue
		}
		walkBody(f, func(x ast.Node) bool {
			c, ok := x.(*ast.CallExpr)
			if !ok || p.ConvTarget(c) != "ice.PriorityAttr" || len(c.Args) != 1 || f.Name == "PriorityAttr.GetFrom" {
				return true
			}
			nSend++
			inner, isCall := unparen(c.Args[0]).(*ast.CallExpr)
			okV := isCall && len(inner.Args) == 0 && strings.HasSuffix(p.CalleeName(inner), ".Priority") && strings.HasPrefix(p.CalleeName(inner), "ice.Candidate")
			r.Check(okV, "PRIORITY attribute built in "+f.Name, p.Pos(c.Pos()), "PriorityAttr(<candidate>.Priority())", "the PRIORITY attribute is "+stripVarLines(p.Canon(c.Args[0]))+", not the local candidate's priority verbatim: the peer records a different priority for the candidate it discovers")
			return true
		})
	}
	if nSend == 0 {
		r.Fail("PRIORITY attribute construction", "", "no PriorityAttr(...) conversion found (rule instance lost)")
	}
	if f := p.Fn("Agent.handleInboundRequest"); r.Anchor("Agent.handleInboundRequest", f != nil) {
		n := 0
		for _, nd := range p.StoresTo(f, "CandidatePeerReflexiveConfig.Priority") {
			var rhs ast.Expr
			switch y := nd.(type) {
			case *ast.AssignStmt:
				for i, l := range y.Lhs {
					if p.IsField(l, "CandidatePeerReflexiveConfig.Priority") && len(y.Lhs) == len(y.Rhs) {
						rhs = y.Rhs[i]
					}
				}
			case *ast.KeyValueExpr:
				rhs = y.Value
			}
			if rhs == nil {
				continue
			}
			n++
			okV := false
			for i := 0; i < 3; i++ { // a named intermediate does not change the value
				id, isI := unparen(rhs).(*ast.Ident)
				if !isI {
					break
				}
				d, okD := p.SingleDef(f, p.ObjOf(id))
				if !okD || d.Rhs == nil || d.Index != 0 {
					break
				}
				rhs = d.Rhs
			}
			if cv, isC := unparen(rhs).(*ast.CallExpr); isC && p.ConvTarget(cv) == "uint32" && len(cv.Args) == 1 {
				if id, isI := unparen(cv.Args[0]).(*ast.Ident); isI && typeStr(p.TypeOf(id)) == "ice.PriorityAttr" {
					okV = true
				}
			}
			r.Check(okV, "peer-reflexive priority from the request", p.Pos(nd.Pos()), "uint32(<PRIORITY attribute>)", "the peer-reflexive candidate's priority is "+stripVarLines(p.Canon(rhs))+", not the request's PRIORITY attribute verbatim: the two agents compute different priorities for the mirrored pair and order their checklists differently")
		}
		if n == 0 {
			r.Fail("peer-reflexive priority from the request", p.Pos(f.Body.Pos()), "the peer-reflexive configuration's Priority is not set from the request")
		}
	}
	if f := p.Fn("NewCandidatePeerReflexive"); r.Anchor("NewCandidatePeerReflexive", f != nil) {
		vals := p.FieldValues(f, "candidateBase.priorityOverride")
		okV := len(vals) > 0
		for _, v := range vals {
			if !p.IsField(p.Deref(f, v), "CandidatePeerReflexiveConfig.Priority") {
				okV = false
			}
		}
		r.Check(okV, "NewCandidatePeerReflexive keeps the configured priority", p.Pos(f.Body.Pos()), "priorityOverride: config.Priority", "the constructor does not store the configured priority verbatim as the override")
	}
	// ---- R17.9 the relay protocol is that of the transport actually used -----------------------------------------
	r.Rule("R17.9", "The transport of a TURN URL is read only through effectiveURLProtoType, which supplies the scheme's default when the URL leaves it unset: the relay protocol (and so the relay candidate's local preference) cannot be derived from the raw field while the connection is made with the effective one.", 1)
	nProto, badProto := 0, ""
	for _, f := range p.AllFuncs {
		if f.Body == nil || f.Pkg != p.Ice {
			continue
		}
		f := f
		walkBody(f, func(x ast.Node) bool {
			sel, ok := x.(*ast.SelectorExpr)
			if !ok || sel.Sel.Name != "Proto" {
				return true
			}
			t := typeStr(p.TypeOf(sel.X))
			if t != "stun.URI" && t != "*stun.URI" {
				return true
			}
			nProto++
			if f.Root().Name != "effectiveURLProtoType" {
				badProto = f.Name + " (" + p.Pos(sel.Pos()) + ")"
			}
			return true
		})
	}
	r.Check(nProto > 0 && badProto == "", "readers of URI.Proto", "gather.go", "effectiveURLProtoType only", "the raw transport field of a TURN URL is read in "+badProto+": for a URL with an unset transport the value differs from the transport the agent connects with, so a relay candidate gets the local preference of another protocol")

	// ---- R17.8 the configured offset is the offset -------------------------------------------------------------
	r.Rule("R17.8", "Agent.tcpPriorityOffset receives the configured value verbatim (the dereferenced configuration pointer, or the option's parameter); the default constant is stored only where the configuration pointer is known to be nil — an explicitly configured offset, 0 included, is never replaced.", 2)
	nOff := 0
	for f, nodes := range p.WritersOf("Agent.tcpPriorityOffset") {
		for _, nd := range nodes {
			as, ok := nd.(*ast.AssignStmt)
			if !ok || len(as.Lhs) != len(as.Rhs) {
				continue
			}
			for i, l := range as.Lhs {
				if !p.IsField(l, "Agent.tcpPriorityOffset") {
					continue
				}
				nOff++
				rhs := unparen(p.Deref(f, as.Rhs[i]))
				switch {
				case p.constName(rhs) == "defaultTCPPriorityOffset":
					okNil := factListHas(p.DominatingFactList(f, as), func(ft Fact) bool {
						return ft.Op == "==" && ft.Val && ft.Y != nil && p.isNilExpr(ft.Y) && p.IsField(ft.X, "AgentConfig.TCPPriorityOffset")
					})
					r.Check(okNil, "default TCP priority offset in "+f.Name, p.Pos(as.Pos()), "only under config.TCPPriorityOffset == nil", "the default offset is stored where the configured pointer is not known to be nil: an explicitly configured offset (for instance 0) is replaced by the default, so TCP type preferences are not 'reduced by the configured offset'")
				default:
					verb := false
					if st, ok := rhs.(*ast.StarExpr); ok && p.IsField(st.X, "AgentConfig.TCPPriorityOffset") {
						verb = true
					}
					if id, ok := rhs.(*ast.Ident); ok {
						for fn := f; fn != nil; fn = fn.Parent {
							for j := 0; ; j++ {
								o := p.paramObj(fn, j)
								if o == nil {
									break
								}
								if p.ObjOf(id) == o {
									// the parameter as it was passed: never reassigned (capped, defaulted, rounded) before the store
									verb = true
									for _, g := range append([]*Func{fn.Root()}, fn.Root().Lits...) {
										for _, d := range p.DefsOf(g, o) {
											switch d.Node.(type) {
											case *ast.AssignStmt, *ast.IncDecStmt, *ast.UnaryExpr:
												verb = false
											}
										}
									}
								}
							}
						}
					}
					r.Check(verb, "configured TCP priority offset in "+f.Name, p.Pos(as.Pos()), "the configured value, verbatim", "the offset stored is "+stripVarLines(p.Canon(rhs))+", not the configured value verbatim")
				}
			}
		}
	}
	if nOff == 0 {
		r.Fail("writers of Agent.tcpPriorityOffset", "", "no store of the TCP priority offset found (rule instance lost)")
	}
}

func identName(e ast.Expr) string {
	if id, ok := unparen(e).(*ast.Ident); ok {
		return id.Name
	}
	return "?"
}

func reverseStrings(s []string) []string {
	out := make([]string, len(s))
	for i, x := range s {
		out[len(s)-1-i] = x
	}
	return out
}

// keyIsField: the key of a struct-literal element names the given field.
func (p *Prog) keyIsField(k ast.Expr, name string) bool {
	id, ok := k.(*ast.Ident)
	if !ok {
		return false
	}
	v, ok := p.ObjOf(id).(*types.Var)
	return ok && v.IsField() && p.FieldName(v) == name
}

// ppAnalysis: the pieces of CandidatePair.priority identified by what they
// are: the comparison helpers (local closures or package-level functions,
// classified over all orderings of their operands) and the two operands G and
// D (the first and second argument of the "greater-than" helper).
type ppAnalysis struct {
	p       *Prog
	pp      *Func
	helpers []*Func
	kinds   map[*Func]string
	sigs    map[*Func]string
	g, d    types.Object
}

func (an *ppAnalysis) helperOf(c *ast.CallExpr) *Func {
	p := an.p
	if id, ok := unparen(c.Fun).(*ast.Ident); ok {
		if o := p.ObjOf(id); o != nil {
			if d, ok := p.SingleDef(an.pp, o); ok && d.Rhs != nil {
				if lit, ok := unparen(d.Rhs).(*ast.FuncLit); ok {
					return p.ByLit[lit]
				}
			}
		}
	}
	if o := p.Callee(c); o != nil {
		if h := p.ByObj[o]; h != nil {
			if _, known := an.kinds[h]; known {
				return h
			}
		}
	}
	return nil
}

func (an *ppAnalysis) roleName(e ast.Expr) string {
	if id, ok := unparen(e).(*ast.Ident); ok {
		switch o := an.p.ObjOf(id); {
		case o != nil && o == an.g:
			return "g"
		case o != nil && o == an.d:
			return "d"
		}
		return id.Name + "?"
	}
	return "?"
}

func (p *Prog) classifyOrderHelper(l *Func) (kind, sigText string) {
	t := p.NewTable(l)
	t.Run()
	sig := map[string]string{}
	var px, py string
	if l.Type.Params != nil {
		var names []string
		for _, f := range l.Type.Params.List {
			for _, n := range f.Names {
				names = append(names, p.varKey(p.ObjOf(n)))
			}
		}
		if len(names) == 2 {
			px, py = names[0], names[1]
		}
	}
	okT := len(t.Problems) == 0 && px != ""
	for _, pa := range t.Paths {
		if len(pa.Hist) != 1 || pa.Hist[0].Atom.Kind != "ord" || len(pa.Results) != 1 {
			okT = false
			continue
		}
		a := pa.Hist[0].Atom
		mask := pa.Hist[0].Val
		if p.Canon(a.X) == py && p.Canon(a.Y) == px {
			mask = flipMask(mask)
		} else if !(p.Canon(a.X) == px && p.Canon(a.Y) == py) {
			okT = false
		}
		res := pa.Results[0]
		res = strings.ReplaceAll(res, px, "x")
		res = strings.ReplaceAll(res, py, "y")
		for _, m := range strings.Split(mask, "|") {
			sig[m] = res
		}
	}
	kind = "?"
	u := func(s string) string { return "conv:uint64(" + s + ")" }
	switch {
	case !okT:
	case sig["LT"] == u("x") && sig["GT"] == u("y") && (sig["EQ"] == u("x") || sig["EQ"] == u("y")):
		kind = "min"
	case sig["GT"] == u("x") && sig["LT"] == u("y") && (sig["EQ"] == u("x") || sig["EQ"] == u("y")):
		kind = "max"
	case (sig["GT"] == "1" || sig["GT"] == u("1")) && (sig["LT"] == "0" || sig["LT"] == u("0")) && (sig["EQ"] == "0" || sig["EQ"] == u("0")):
		kind = "gt"
	}
	return kind, fmt.Sprintf("LT->%s EQ->%s GT->%s", sig["LT"], sig["EQ"], sig["GT"])
}

func (p *Prog) pairPriorityAnalysis(pp *Func) *ppAnalysis {
	an := &ppAnalysis{p: p, pp: pp, kinds: map[*Func]string{}, sigs: map[*Func]string{}}
	add := func(h *Func) {
		if h == nil {
			return
		}
		if _, dup := an.kinds[h]; dup {
			return
		}
		an.kinds[h], an.sigs[h] = p.classifyOrderHelper(h)
		an.helpers = append(an.helpers, h)
	}
	for _, l := range pp.Lits {
		add(l)
	}
	// package-level two-operand helpers called from the formula
	walkBody(pp, func(n ast.Node) bool {
		if c, ok := n.(*ast.CallExpr); ok && len(c.Args) == 2 {
			if o := p.Callee(c); o != nil {
				if h := p.ByObj[o]; h != nil && h.Body != nil && h.Pkg == p.Ice && h.Decl != nil && h.Decl.Recv == nil {
					add(h)
				}
			}
		}
		return true
	})
	// G and D: the operands of the greater-than helper
	walkBody(pp, func(n ast.Node) bool {
		if c, ok := n.(*ast.CallExpr); ok && len(c.Args) == 2 {
			if h := an.helperOf(c); h != nil && an.kinds[h] == "gt" {
				if a, ok := unparen(c.Args[0]).(*ast.Ident); ok {
					an.g = p.ObjOf(a)
				}
				if b, ok := unparen(c.Args[1]).(*ast.Ident); ok {
					an.d = p.ObjOf(b)
				}
			}
		}
		return true
	})
	return an
}

// checkPairPriorityFormula: C17 R17.4, shared with C03 R3.10.
func checkPairPriorityFormula(p *Prog, r *Report) {
	pp := p.Fn("CandidatePair.priority")
	if r.Anchor("CandidatePair.priority", pp != nil) {
		an := p.pairPriorityAnalysis(pp)
		for _, h := range an.helpers {
			kind := an.kinds[h]
			r.Check(kind != "?", "pair priority helper "+kind, p.Pos(h.Body.Pos()), "helper is "+kind+" over all orderings of its operands, result widened to uint64",
				"helper "+h.Name+" is neither min, max nor (x>y?1:0) with 64-bit results: "+an.sigs[h])
		}
		// the formula
		walkBody(pp, func(n ast.Node) bool {
			rs, ok := n.(*ast.ReturnStmt)
			if !ok || len(rs.Results) != 1 {
				return true
			}
			if p.IsField(rs.Results[0], "CandidatePair.priorityOverride") {
				facts, _ := p.FactsAtCall(pp, rs)
				ok := facts.Has(func(f Fact) bool {
					return f.Op == "truth" && f.Val && p.IsField(f.X, "CandidatePair.hasPriorityOverride")
				})
				r.Check(ok, "pair priority: override only when set", p.Pos(rs.Pos()), "guarded by hasPriorityOverride", "override returned without hasPriorityOverride")
				return true
			}
			argsOK := true
			lf := p.Linear(rs.Results[0], func(e ast.Expr) string {
				if c, ok := e.(*ast.CallExpr); ok {
					if h := an.helperOf(c); h != nil {
						if len(c.Args) != 2 || p.Canon(c.Args[0]) == p.Canon(c.Args[1]) {
							argsOK = false
						}
						a0, a1 := "", ""
						if len(c.Args) == 2 {
							a0, a1 = an.roleName(c.Args[0]), an.roleName(c.Args[1])
						}
						return an.kinds[h] + "(" + a0 + "," + a1 + ")"
					}
				}
				return p.Canon(e)
			})
			want := map[string]string{"min(g,d)": "4294967295", "max(g,d)": "2", "gt(g,d)": "1"}
			// min and max are symmetric in their arguments
			norm := map[string]*big.Int{}
			for k, v := range lf.Terms {
				k2 := k
				switch k {
				case "min(d,g)":
					k2 = "min(g,d)"
				case "max(d,g)":
					k2 = "max(g,d)"
				}
				norm[k2] = v
			}
			ok2 := lf.OK && argsOK && len(norm) == len(want)
			for k, v := range want {
				if norm[k] == nil || norm[k].String() != v {
					ok2 = false
				}
			}
			r.Check(ok2, "pair priority linear form", p.Pos(rs.Pos()), lf.String(), "linear form is "+lf.String()+" "+lf.Why+"; expected 4294967295*min(g,d) + 2*max(g,d) + gt(g,d)")
			return true
		})
		// orientation of g and d
		t := p.NewTable(pp)
		t.Event = func(n ast.Node, _ *TEnv) []string {
			as, ok := n.(*ast.AssignStmt)
			if !ok || len(as.Lhs) != 1 || len(as.Rhs) != 1 {
				return nil
			}
			id, ok := as.Lhs[0].(*ast.Ident)
			if !ok {
				return nil
			}
			name := an.roleName(id)
			if name != "g" && name != "d" {
				return nil
			}
			c, ok := unparen(as.Rhs[0]).(*ast.CallExpr)
			if !ok || !strings.HasSuffix(p.CalleeName(c), ".Priority") {
				return []string{name + "=?"}
			}
			sel, _ := unparen(c.Fun).(*ast.SelectorExpr)
			side := "?"
			if sel != nil {
				switch {
				case p.IsField(sel.X, "CandidatePair.Local"):
					side = "local"
				case p.IsField(sel.X, "CandidatePair.Remote"):
					side = "remote"
				}
			}
			return []string{name + "=" + side}
		}
		t.Run()
		for _, pa := range t.Paths {
			ctrl, ovr := "", ""
			for _, d := range pa.Hist {
				switch {
				case p.IsField(d.Atom.X, "CandidatePair.iceRoleControlling"):
					ctrl = d.Val
				case p.IsField(d.Atom.X, "CandidatePair.hasPriorityOverride"):
					ovr = d.Val
				}
			}
			if ovr == "true" {
				continue
			}
			got := strings.Join(pa.Events, ",")
			want := "g=remote,d=local"
			if ctrl == "true" {
				want = "g=local,d=remote"
			}
			alt := strings.Join(reverseStrings(strings.Split(want, ",")), ",")
			r.Check(got == want || got == alt, "pair priority orientation controlling="+ctrl, pa.EndPos, "G is the controlling side's priority ("+got+")", "with controlling="+ctrl+" the code takes "+got+", the formula requires "+want)
		}
	}
}
