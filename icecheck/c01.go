package main

import (
	"go/ast"
	"strings"
)

func init() { register("C01", checkC01) }

func countEv(sp *SemPath, e string) int {
	n := 0
	for _, x := range sp.Events {
		if x == e {
			n++
		}
	}
	return n
}

// C01 Two agents converge on the same, working pair — necessary protocol
// obligations only (convergence itself is a liveness statement over schedules).
func checkC01(p *Prog, r *Report) {
	// ---- R1.1 every authenticated request is answered --------------------------------
	r.Rule("R1.1", "Every path through each selector's HandleBindingRequest sends exactly one Binding success response (a check that is never answered can never validate the peer's pair).", 2)
	_, ctlReq := selPaths(p, r, "controlledSelector.HandleBindingRequest")
	_, cngReq := selPaths(p, r, "controllingSelector.HandleBindingRequest")
	for name, sps := range map[string][]*SemPath{"controlled": ctlReq, "controlling": cngReq} {
		if sps == nil {
			continue
		}
		bad := 0
		for _, sp := range sps {
			if countEv(sp, "reply") != 1 {
				bad++
				if bad <= 3 {
					r.Fail(name+" HandleBindingRequest: one reply per request", sp.EndPos, "on "+sp.String()+" the request gets "+itoa(countEv(sp, "reply"))+" success responses")
				}
			}
		}
		if bad == 0 {
			r.OK(name+" HandleBindingRequest: one reply per request", "selection.go", itoa(len(sps))+" paths, each with exactly one sendBindingSuccess")
		}
	}

	// ---- R1.2 triggered check ----------------------------------------------------------
	r.Rule("R1.2", "The controlled selector answers every request it did not reject with a triggered check unless the agent is lite or the pair is already validated and something is selected; a rejected renomination is answered and nothing else.", 3)
	if ctlReq != nil {
		bad, nPing := 0, 0
		for _, sp := range ctlReq {
			if sp.Vals["accept"] == "false" {
				if strings.Join(sp.Events, ",") != "reply" && strings.Join(sp.Events, ",") != "addPair,reply" {
					bad++
					r.Fail("controlled request: rejected nomination", sp.EndPos, "a rejected nomination does "+strings.Join(sp.Events, ",")+" instead of just answering")
				}
				continue
			}
			want := sp.Vals["lite"] == "false"
			if want {
				validated := enumConsistent(sp.Vals, "state", "CandidatePairStateSucceeded") && hasEq(sp.Vals, "state", "CandidatePairStateSucceeded")
				if validated && sp.Vals["selected"] == "!=nil" {
					want = false
				}
			}
			got := sp.Has("ping")
			if got {
				nPing++
				// the reply precedes the triggered check
				if evIndex(sp, "reply") > evIndex(sp, "ping") {
					bad++
					r.Fail("controlled request: reply before triggered check", sp.EndPos, "the triggered check is sent before the response")
				}
			}
			if got != want {
				bad++
				if bad <= 4 {
					r.Fail("controlled request: triggered check "+rowKey(sp, "lite", "state", "selected"), sp.EndPos, "on "+sp.String()+" triggered check sent="+boolStr(got)+", required "+boolStr(want)+" (full agent, pair not yet validated or nothing selected)")
				}
			}
		}
		if bad == 0 {
			r.OK("controlled request: triggered check rule", "selection.go", itoa(nPing)+" paths send the triggered check, exactly those required")
			r.OK("controlled request: rejected nomination only answered", "selection.go", "checked on all rejected paths")
			r.OK("controlled request: reply precedes triggered check", "selection.go", "order checked")
		}
	}

	// ---- R1.3 the tick -------------------------------------------------------------------
	r.Rule("R1.3", "Controlling tick: selected -> validate (+keepalive while valid); else a remembered nomination is re-sent every tick until acknowledged; else the best valid pair is nominated once both candidates are nominatable (marked and remembered); else all pairs are pinged. Controlled tick: selected -> validate (+keepalive) else ping all.", 9)
	if _, sps := selPaths(p, r, "controllingSelector.ContactCandidates"); sps != nil {
		for _, sp := range sps {
			want := ""
			switch {
			case sp.Vals["selected"] == "!=nil":
				if sp.Vals["validated"] == "true" {
					want = "keepalive"
					if sp.Vals["autoRenom"] == "true" && sp.Vals["autoRenom#2"] == "true" {
						want += ",keepalive-all"
					}
					want += ",auto-renom"
				}
			case sp.Vals["nominatedPair"] == "!=nil":
				want = "nominate"
			case sp.Vals["bestValid"] == "!=nil" && sp.Vals["nominatable"] == "true" && sp.Vals["nominatable#2"] == "true":
				want = "nominated=true,remember-nominated,nominate"
			default:
				want = "pingAll"
			}
			got := strings.Join(sp.Events, ",")
			r.Check(got == want, "controlling tick row "+rowKey(sp, "selected", "validated", "nominatedPair", "bestValid", "nominatable", "nominatable#2", "autoRenom", "autoRenom#2"), sp.EndPos, "-> ["+want+"]", "the tick does ["+got+"], required ["+want+"]")
		}
	}
	if _, sps := selPaths(p, r, "controlledSelector.ContactCandidates"); sps != nil {
		for _, sp := range sps {
			want := "pingAll"
			if sp.Vals["selected"] == "!=nil" {
				want = ""
				if sp.Vals["validated"] == "true" {
					want = "keepalive"
				}
			}
			got := strings.Join(sp.Events, ",")
			r.Check(got == want, "controlled tick row "+rowKey(sp, "selected", "validated"), sp.EndPos, "-> ["+want+"]", "the tick does ["+got+"], required ["+want+"]")
		}
	}
	// nominatePair sends a USE-CANDIDATE request for the given pair (R1.7)
	r.Rule("R1.7", "Nomination requests carry USE-CANDIDATE, ICE-CONTROLLING and the pair's local priority, are built as Binding requests with the remote-ufrag:local-ufrag username and the remote password, and are handed to sendBindingRequest for that pair.", 2)
	for _, name := range []string{"controllingSelector.nominatePair", "Agent.sendNominationRequest"} {
		f := p.Fn(name)
		if !r.Anchor(name, f != nil) {
			continue
		}
		has := map[string]bool{}
		walkBody(f, func(n ast.Node) bool {
			c, ok := n.(*ast.CallExpr)
			if !ok {
				return true
			}
			switch p.CalleeName(c) {
			case "ice.UseCandidate":
				has["usecandidate"] = true
			case "stun.NewUsername":
				if len(c.Args) == 1 {
					parts := p.concatParts(c.Args[0])
					has["username"] = len(parts) == 3 && p.IsField(parts[0], "Agent.remoteUfrag") && isStringLit(p, parts[1], ":") && p.IsField(parts[2], "Agent.localUfrag")
				}
			case "stun.NewShortTermIntegrity":
				has["integrity"] = len(c.Args) == 1 && p.IsField(c.Args[0], "Agent.remotePwd")
			case "ice.Agent.sendBindingRequest":
				if len(c.Args) == 3 {
					has["send"] = p.IsField(p.Deref(f, c.Args[1]), "CandidatePair.Local") && p.IsField(p.Deref(f, c.Args[2]), "CandidatePair.Remote")
					if cc, _, ok := p.ResolveCall(f, c.Args[0]); ok && p.CalleeName(cc) == "stun.Build" {
						has["built"] = true
					}
				}
			}
			if p.ConvTarget(c) == "ice.AttrControlling" {
				has["controlling"] = true
			}
			if p.ConvTarget(c) == "ice.PriorityAttr" && len(c.Args) == 1 {
				if pc, ok := unparen(c.Args[0]).(*ast.CallExpr); ok && p.CalleeName(pc) == "ice.Candidate.Priority" {
					if sel, ok := unparen(pc.Fun).(*ast.SelectorExpr); ok && p.IsField(sel.X, "CandidatePair.Local") {
						has["priority"] = true
					}
				}
			}
			return true
		})
		if p.MentionsObj(f.Body, "stun.BindingRequest") {
			has["bindingrequest"] = true
		}
		var missing []string
		for _, k := range []string{"usecandidate", "controlling", "priority", "username", "integrity", "bindingrequest", "built", "send"} {
			if !has[k] {
				missing = append(missing, k)
			}
		}
		r.Check(len(missing) == 0, name+": nomination request contents", p.Pos(f.Body.Pos()), "USE-CANDIDATE, ICE-CONTROLLING, PRIORITY(local), username, integrity, sent for the pair", "missing/incorrect: "+strings.Join(missing, ", "))
	}

	// ---- R1.4 ordinary checks and the retry budget ------------------------------------------
	r.Rule("R1.4", "pingAllCandidates, per pair: Waiting becomes InProgress and is then treated as InProgress; InProgress with more requests than the maximum becomes Failed without a send; InProgress otherwise is pinged and counted; Succeeded/Failed are skipped.", 5)
	if f := p.Fn("Agent.pingAllCandidates"); r.Anchor("Agent.pingAllCandidates", f != nil) {
		t := p.NewTable(f)
		t.Event = selectorEvents(p, f)
		t.Run()
		base := classifySelectorAtom(p, f)
		seen := map[string]bool{}
		for _, sp := range t.Semantic(func(a *TAtom) (string, bool) {
			if a.Kind == "range" {
				return "-", false
			}
			if a.Kind == "enum" {
				if c, ok := unparen(a.X).(*ast.CallExpr); ok && p.CalleeName(c) == "builtin.len" {
					return "-", false // warning only
				}
			}
			if a.Kind == "ord" {
				cnt := func(e ast.Expr) bool { return p.IsField(e, "CandidatePair.bindingRequestCount") }
				mx := func(e ast.Expr) bool { return p.IsField(e, "Agent.maxBindingRequests") }
				if cnt(a.X) && mx(a.Y) {
					return "budget", false
				}
				if cnt(a.Y) && mx(a.X) {
					return "budget", true
				}
			}
			return base(a)
		}) {
			if len(sp.Unclassified) > 0 {
				r.Fail("pingAllCandidates", sp.EndPos, "behaviour depends on an unexpected condition "+stripVarLines(strings.Join(sp.Unclassified, ",")))
				continue
			}
			if len(sp.Vals) == 0 {
				continue // empty checklist
			}
			waiting := sp.Vals["state"] == "==CandidatePairStateWaiting"
			inprog := waiting || sp.Vals["state#2"] == "==CandidatePairStateInProgress" || sp.Vals["state"] == "==CandidatePairStateInProgress"
			pre := ""
			if waiting {
				pre = "state=InProgress,"
			}
			want := ""
			switch {
			case !inprog:
				want = ""
			case sp.Vals["budget"] == "GT":
				want = pre + "state=Failed"
			default:
				want = pre + "ping,count++"
			}
			got := strings.Join(sp.Events, ",")
			key := "pingAllCandidates row " + rowKey(sp, "state", "state#2", "budget")
			if seen[key] {
				continue
			}
			seen[key] = true
			r.Check(got == want, key, sp.EndPos, "-> ["+want+"]", "the step does ["+got+"], required ["+want+"]")
		}
	}

	// ---- R1.5 validation only through the gates (shared with C02/C03) ------------------------
	r.Rule("R1.5", "Both HandleSuccessResponse implementations mark a pair Succeeded only after the transaction match and the symmetry gate, on conditions the checker knows.", 2)
	for _, name := range []string{"controllingSelector.HandleSuccessResponse", "controlledSelector.HandleSuccessResponse"} {
		if _, sps := selPaths(p, r, name); sps != nil {
			bad, n := 0, 0
			for _, sp := range sps {
				gated := sp.Vals["txn"] == "true" && sp.Vals["symmetric"] == "true" && sp.Vals["pair"] == "!=nil"
				if sp.Has("state=Succeeded") {
					n++
				}
				if sp.Has("state=Succeeded") != gated {
					bad++
					r.Fail(name+": validation gate", sp.EndPos, "on "+sp.String()+" validated="+boolStr(sp.Has("state=Succeeded"))+" but gates passed="+boolStr(gated)+": an answered check must validate its pair, and only an answered check may")
				}
			}
			if bad == 0 && n > 0 {
				r.OK(name+": validation gate", "selection.go", "validated exactly on the gated paths")
			}
		}
	}

	// ---- R1.8 deferred nomination is remembered ---------------------------------------------
	r.Rule("R1.8", "An accepted nomination on a not-yet-validated pair is remembered (nominateOnBindingSuccess = true) and the flag is never cleared by later requests; it is consumed by the controlled HandleSuccessResponse.", 2)
	if ctlReq != nil {
		bad, n := 0, 0
		for _, sp := range ctlReq {
			nominated := sp.Vals["useCand"] == "true" || (sp.Vals["hasNomAttr"] == "true" && sp.Vals["nomDecode"] == "==nil")
			should := nominated && sp.Vals["accept"] == "true" && sp.Vals["state"] == "!=CandidatePairStateSucceeded" && sp.Vals["lite"] != "true"
			if should {
				n++
				if !sp.Has("defer=true") {
					bad++
					r.Fail("controlled request: deferred nomination remembered", sp.EndPos, "on "+sp.String()+" an accepted nomination on a pair that is not yet valid is dropped: when the pair's check succeeds later nothing is selected")
				}
			}
			for _, e := range sp.Events {
				if strings.HasPrefix(e, "defer=") && e != "defer=true" {
					bad++
					r.Fail("controlled request: deferred flag only set", sp.EndPos, "the deferred-nomination flag is written with "+e+" on "+sp.String()+": a later plain request clears a pending nomination")
				}
			}
		}
		if bad == 0 && n > 0 {
			r.OK("controlled request: deferred nomination remembered", "selection.go", itoa(n)+" deferred paths set the flag; no path clears it")
		}
	}
	if _, sps := selPaths(p, r, "controlledSelector.HandleSuccessResponse"); sps != nil {
		used := false
		for _, sp := range sps {
			if sp.Vals["deferred"] == "true" && sp.Has("select") {
				used = true
			}
		}
		r.Check(used, "controlled success consumes the deferred nomination", "selection.go", "a path with nominateOnBindingSuccess selects", "no path of the controlled HandleSuccessResponse selects on a deferred nomination")
	}

	// ---- R1.9 the pending-request record describes the request sent --------------------------
	r.Rule("R1.9", "sendBindingRequest records, before sending, a pending transaction whose id is the message's, whose destination and transport are the remote candidate's, and whose USE-CANDIDATE flag is read from the message.", 1)
	if f := p.Fn("Agent.sendBindingRequest"); r.Anchor("Agent.sendBindingRequest", f != nil) {
		pMsg, pRemote := p.paramObj(f, 0), p.paramObj(f, 2)
		got := map[string]bool{}
		var lit *ast.CompositeLit
		walkBody(f, func(n ast.Node) bool {
			cl, ok := n.(*ast.CompositeLit)
			if !ok || typeStr(p.TypeOf(cl)) != "ice.bindingRequest" {
				return true
			}
			lit = cl
			for _, el := range cl.Elts {
				kv, ok := el.(*ast.KeyValueExpr)
				if !ok {
					continue
				}
				k := kv.Key.(*ast.Ident).Name
				switch k {
				case "transactionID":
					got[k] = strings.HasSuffix(stripVarLines(p.Canon(kv.Value)), ".TransactionID") && p.mentionsObj(kv.Value, pMsg)
				case "destination":
					c, ok := unparen(kv.Value).(*ast.CallExpr)
					got[k] = ok && p.CalleeName(c) == "ice.Candidate.addrPort" && p.mentionsObj(c, pRemote)
				case "networkType":
					c, ok := unparen(kv.Value).(*ast.CallExpr)
					got[k] = ok && p.CalleeName(c) == "ice.Candidate.NetworkType" && p.mentionsObj(c, pRemote)
				case "isUseCandidate":
					c, ok := unparen(kv.Value).(*ast.CallExpr)
					got[k] = ok && p.CalleeName(c) == "stun.Message.Contains" && p.mentionsObj(c, pMsg) && len(c.Args) == 1 && p.constName(c.Args[0]) == "AttrUseCandidate"
				case "timestamp":
					c, ok := unparen(kv.Value).(*ast.CallExpr)
					got[k] = ok && p.CalleeName(c) == "time.Now"
				}
			}
			return true
		})
		var missing []string
		for _, k := range []string{"transactionID", "destination", "networkType", "isUseCandidate", "timestamp"} {
			if !got[k] {
				missing = append(missing, k)
			}
		}
		order := false
		if lit != nil {
			sends := p.CallsTo(f, false, "ice.Agent.sendSTUN")
			order = len(sends) == 1
			for _, c := range sends {
				if lit.Pos() > c.Pos() {
					order = false
				}
			}
		}
		r.Check(len(missing) == 0 && order, "pending transaction record", p.Pos(f.Body.Pos()), "id, destination, transport, USE-CANDIDATE flag and time recorded before the send", "pending-transaction record fields missing or not derived from the request sent: "+strings.Join(missing, ", ")+"; recorded before send: "+boolStr(order))
	}

	// ---- R1.6 both sides order pairs identically ---------------------------------------------
	r.Rule("R1.6", "The pair priority is symmetric under the role swap (G is the controlling side's candidate priority on both agents) — decided by C17 R17.4, re-checked here on the orientation only.", 2)
	if pp := p.Fn("CandidatePair.priority"); r.Anchor("CandidatePair.priority", pp != nil) {
		an := p.pairPriorityAnalysis(pp) // G and D are identified as the operands of the greater-than helper (shared with C17)
		t := p.NewTable(pp)
		t.Event = func(n ast.Node, _ *TEnv) []string {
			as, ok := n.(*ast.AssignStmt)
			if !ok || len(as.Lhs) != 1 || len(as.Rhs) != 1 {
				return nil
			}
			id, ok := as.Lhs[0].(*ast.Ident)
			if !ok {
				return nil
			}
			name := an.roleName(id)
			if name != "g" && name != "d" {
				return nil
			}
			c, ok := unparen(as.Rhs[0]).(*ast.CallExpr)
			if !ok {
				return nil
			}
			sel, _ := unparen(c.Fun).(*ast.SelectorExpr)
			side := "?"
			if sel != nil && p.IsField(sel.X, "CandidatePair.Local") {
				side = "local"
			} else if sel != nil && p.IsField(sel.X, "CandidatePair.Remote") {
				side = "remote"
			}
			return []string{name + "=" + side}
		}
		t.Run()
		for _, pa := range t.Paths {
			ctrl, ovr := "", ""
			for _, d := range pa.Hist {
				if p.IsField(d.Atom.X, "CandidatePair.iceRoleControlling") {
					ctrl = d.Val
				}
				if p.IsField(d.Atom.X, "CandidatePair.hasPriorityOverride") {
					ovr = d.Val
				}
			}
			if ovr == "true" || ctrl == "" {
				continue
			}
			want := map[string]bool{"g=remote": true, "d=local": true}
			if ctrl == "true" {
				want = map[string]bool{"g=local": true, "d=remote": true}
			}
			ok := len(pa.Events) == 2 && want[pa.Events[0]] && want[pa.Events[1]]
			r.Check(ok, "pair priority orientation controlling="+ctrl, pa.EndPos, strings.Join(pa.Events, ","), "with controlling="+ctrl+" the code takes "+strings.Join(pa.Events, ","))
		}
	}

	// ---- R1.10 the parked nomination survives supersession -------------------------------------------
	r.Rule("R1.10", "When a signalled candidate supersedes a peer-reflexive one, the replacement pair keeps the pair's check state, its nominated flag and the remembered (parked) nomination: a nomination that arrived before the pair was valid is still honoured when the triggered check succeeds on the replacement.", 1)
	if f := p.Fn("replacePairRemote"); r.Anchor("replacePairRemote", f != nil) {
		covered, _ := p.replacePairCoverage(f)
		var missing []string
		for _, n := range []string{"state", "nominated", "nominateOnBindingSuccess", "id"} {
			if !covered[n] {
				missing = append(missing, n)
			}
		}
		r.Check(len(missing) == 0, "replacePairRemote carries the nomination state over", p.Pos(f.Body.Pos()), "state, nominated, nominateOnBindingSuccess, id copied from the same field", "not carried over: "+strings.Join(missing, ", ")+" — a nomination parked on the peer-reflexive pair is forgotten; the controlled agent never selects the pair although the controlling side already did")
	}
	// ---- R1.11 transactions are scoped to the session ---------------------------------------------------
	r.Rule("R1.11", "The table of outstanding transactions is emptied on every path of the Restart task and of the Failed transition (directly or through a helper): a success response can only validate a pair for a check sent in the current session.", 2)
	checkPendingWipe(p, r)
	// ---- R1.12 a restarted session gets a full checking period ---------------------------------------------------
	r.Rule("R1.12", "The check tick records the connection state it leaves behind on every exit, so that a session restarted right after a failure re-arms its checking deadline instead of failing at once on the old one (table shared with C04 R4.5).", 6)
	checkTickDiscipline(p, r)
}

func hasEq(vals map[string]string, name, c string) bool {
	for k, v := range vals {
		if (k == name || strings.HasPrefix(k, name+"#")) && v == "=="+c {
			return true
		}
	}
	return false
}

func itoa(n int) string {
	return strings.TrimSpace(strings.Replace(strings.Repeat(" ", 0)+fmtInt(n), " ", "", -1))
}

func fmtInt(n int) string {
	if n == 0 {
		return "0"
	}
	neg := n < 0
	if neg {
		n = -n
	}
	var b []byte
	for n > 0 {
		b = append([]byte{byte('0' + n%10)}, b...)
		n /= 10
	}
	if neg {
		b = append([]byte{'-'}, b...)
	}
	return string(b)
}

// checkPendingWipe: shared by C01 R1.11 and C03 R3.8.
func checkPendingWipe(p *Prog, r *Report) {
	if rs := p.Fn("Agent.Restart$1"); r.Anchor("Restart task", rs != nil) {
		r.Check(p.resetsOnAllPaths(rs, Loc{p.CFG(rs).Entry, 0}, "Agent.pendingBindingRequests", 2), "Restart forgets outstanding transactions", p.Pos(rs.Body.Pos()), "pendingBindingRequests reset on every path", "a path through the Restart task keeps the outstanding transactions: a late answer to a check (or nomination) of the previous session marks a pair of the new checklist Succeeded — the controlling agent reports Connected on a pair it never checked in this session and stops nominating, the peer never connects")
	}
	if ucs := p.Fn("Agent.updateConnectionState"); r.Anchor("Agent.updateConnectionState", ucs != nil) {
		starts := p.branchStarts(ucs, func(ft Fact) bool {
			return ft.Op == "==" && ft.Val && p.constName(ft.Y) == "ConnectionStateFailed"
		})
		ok := len(starts) > 0
		for _, b := range starts {
			ok = ok && p.resetsOnAllPaths(ucs, Loc{b, 0}, "Agent.pendingBindingRequests", 2)
		}
		r.Check(ok, "Failed forgets outstanding transactions", p.Pos(ucs.Body.Pos()), "pendingBindingRequests reset on every path of the Failed branch", "the Failed transition keeps the outstanding transactions: a late answer validates a pair of a later session")
	}
}
