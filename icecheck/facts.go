package main

// Must-facts: forward dataflow over the CFG computing, for every program
// point, the atomic conditions that hold on ALL paths reaching it.

import (
	"go/ast"
	"go/token"
	"go/types"
)

type FactAnalysis struct {
	p  *Prog
	f  *Func
	g  *CFG
	in map[*Block]FactSet
	// cache of fields a fact depends on through its calls
	factFields map[string]map[*types.Var]bool
}

var factCache = map[*Func]*FactAnalysis{}

func (p *Prog) Facts(f *Func) *FactAnalysis {
	if fa, ok := factCache[f]; ok && fa.p == p {
		return fa
	}
	fa := &FactAnalysis{p: p, f: f, g: p.CFG(f), in: map[*Block]FactSet{}, factFields: map[string]map[*types.Var]bool{}}
	fa.run()
	factCache[f] = fa
	return fa
}

func (fa *FactAnalysis) depsFields(f Fact) map[*types.Var]bool {
	if m, ok := fa.factFields[f.Key]; ok {
		return m
	}
	m := map[*types.Var]bool{}
	if f.deps != nil {
		for k := range f.deps.Fields {
			m[k] = true
		}
		for _, c := range f.deps.Calls {
			for k := range fa.p.CallReads(fa.f, c) {
				m[k] = true
			}
		}
	}
	fa.factFields[f.Key] = m
	return m
}

// nodeKills computes what executing n invalidates.
func (fa *FactAnalysis) nodeKills(n ast.Node) (vars map[types.Object]bool, fields map[*types.Var]bool) {
	p := fa.p
	vars = map[types.Object]bool{}
	fields = map[*types.Var]bool{}
	addLhs := func(l ast.Expr) {
		l = unparen(l)
		if id, ok := l.(*ast.Ident); ok {
			if o := p.ObjOf(id); o != nil {
				vars[o] = true
			}
			return
		}
		for _, fv := range p.lhsFields(l) {
			fields[fv] = true
		}
		// writing through an index/star of a local kills facts about that local
		ast.Inspect(l, func(x ast.Node) bool {
			if id, ok := x.(*ast.Ident); ok {
				if o, ok := p.ObjOf(id).(*types.Var); ok && !o.IsField() {
					switch l.(type) {
					case *ast.IndexExpr, *ast.StarExpr:
						vars[o] = true
					}
				}
			}
			return true
		})
	}
	switch x := n.(type) {
	case *RangeAssign:
		if x.Stmt.Key != nil {
			addLhs(x.Stmt.Key)
		}
		if x.Stmt.Value != nil {
			addLhs(x.Stmt.Value)
		}
		return
	case *ast.GoStmt:
		return // runs asynchronously
	case *ast.DeferStmt:
		return // runs at function exit
	}
	ast.Inspect(n, func(x ast.Node) bool {
		switch x := x.(type) {
		case *ast.FuncLit:
			return false
		case *ast.AssignStmt:
			for _, l := range x.Lhs {
				addLhs(l)
			}
		case *ast.IncDecStmt:
			addLhs(x.X)
		case *ast.ValueSpec:
			for _, id := range x.Names {
				if o := p.ObjOf(id); o != nil {
					vars[o] = true
				}
			}
		case *ast.UnaryExpr:
			if x.Op == token.AND {
				// &v passed somewhere: callee may write v
				if id, ok := unparen(x.X).(*ast.Ident); ok {
					if o := p.ObjOf(id); o != nil {
						vars[o] = true
					}
				}
			}
		case *ast.CallExpr:
			for k := range p.CallWrites(fa.f, x) {
				fields[k] = true
			}
			switch p.CalleeName(x) {
			case "builtin.delete", "builtin.clear", "builtin.copy":
				if len(x.Args) > 0 {
					addLhs(x.Args[0])
				}
			}
		}
		return true
	})
	return
}

func (fa *FactAnalysis) transfer(s FactSet, n ast.Node) FactSet {
	vars, fields := fa.nodeKills(n)
	if len(vars) > 0 || len(fields) > 0 {
		for k, f := range s {
			kill := false
			if f.deps != nil {
				for v := range f.deps.Vars {
					if vars[v] {
						kill = true
					}
				}
			}
			if !kill && len(fields) > 0 {
				for fv := range fa.depsFields(f) {
					if fields[fv] {
						kill = true
					}
				}
			}
			if kill {
				delete(s, k)
			}
		}
	}
	// gen: x = const
	if as, ok := n.(*ast.AssignStmt); ok && (as.Tok == token.ASSIGN || as.Tok == token.DEFINE) && len(as.Lhs) == len(as.Rhs) {
		for i, l := range as.Lhs {
			if fa.p.isConstLike(as.Rhs[i]) {
				if _, isBlank := l.(*ast.Ident); isBlank && l.(*ast.Ident).Name == "_" {
					continue
				}
				f := fa.p.eqFact(l, as.Rhs[i], true)
				f.Key = "assigned" + f.Key
				f.Op = "assigned"
				s[f.Key] = f
				g := fa.p.eqFact(l, as.Rhs[i], true)
				s[g.Key] = g
			}
		}
	}
	return s
}

func meet(a, b FactSet) (FactSet, bool) {
	changed := false
	for k, fa := range a {
		if fb, ok := b[k]; !ok || fb.Val != fa.Val {
			delete(a, k)
			changed = true
		}
	}
	return a, changed
}

func (fa *FactAnalysis) run() {
	g := fa.g
	fa.in[g.Entry] = FactSet{}
	work := []*Block{g.Entry}
	inWork := map[*Block]bool{g.Entry: true}
	for len(work) > 0 {
		b := work[0]
		work = work[1:]
		inWork[b] = false
		out := fa.in[b].clone()
		for _, n := range b.Nodes {
			out = fa.transfer(out, n)
		}
		for _, e := range b.Succs {
			cand := out.clone()
			for _, f := range fa.p.FactsOfCond(e.Cond, e.Val) {
				cand[f.Key] = f
			}
			// what a flag variable implies is known on this edge whatever was known before
			for _, f := range fa.p.flagFacts(fa.f, e.Cond, e.Val, 0, false) {
				cand[f.Key] = f
			}
			cur, seen := fa.in[e.To]
			changed := false
			if !seen {
				fa.in[e.To] = cand
				changed = true
			} else {
				fa.in[e.To], changed = meet(cur, cand)
			}
			if changed && !inWork[e.To] {
				work = append(work, e.To)
				inWork[e.To] = true
			}
		}
	}
}

// At returns the facts that hold immediately before node loc.I of loc.B runs.
func (fa *FactAnalysis) At(loc Loc) FactSet {
	in, ok := fa.in[loc.B]
	if !ok {
		return nil // unreachable
	}
	s := in.clone()
	for i := 0; i < loc.I && i < len(loc.B.Nodes); i++ {
		s = fa.transfer(s, loc.B.Nodes[i])
	}
	return s
}

// AtNode returns the must-facts before the statement containing n executes;
// ok is false if n is not part of this function's CFG or is unreachable.
func (fa *FactAnalysis) AtNode(n ast.Node) (FactSet, bool) {
	loc, ok := fa.g.Locate(n)
	if !ok {
		return nil, false
	}
	s := fa.At(loc)
	return s, s != nil
}

// Has reports whether some fact satisfies pred.
func (s FactSet) Has(pred func(f Fact) bool) bool {
	for _, f := range s {
		if pred(f) {
			return true
		}
	}
	return false
}

// ---- fact matchers used by rules ----

// FactIsResultOf: fact says result #idx of a call to callee (qualified name)
// is (for bools) val, or (for ==nil facts) compares to nil with polarity val.
func (p *Prog) exprIsCallTo(f *Func, e ast.Expr, callee string, idx int) (*ast.CallExpr, bool) {
	c, i, ok := p.ResolveCall(f, e)
	if !ok || p.CalleeName(c) != callee {
		return nil, false
	}
	if idx >= 0 && i != idx {
		return nil, false
	}
	return c, true
}

// HasNilErr: facts contain "result idx of call to callee == nil" (val true).
func (p *Prog) HasCallEqNil(s FactSet, f *Func, callee string, idx int, isNil bool) (*ast.CallExpr, bool) {
	for _, ft := range s {
		if ft.Op != "==" || !p.isNilExpr(ft.Y) {
			continue
		}
		if c, ok := p.exprIsCallTo(f, ft.X, callee, idx); ok && ft.Val == isNil {
			return c, true
		}
	}
	return nil, false
}

// HasCallTruth: facts contain "result idx of call to callee" with truth val.
func (p *Prog) HasCallTruth(s FactSet, f *Func, callee string, idx int, val bool) (*ast.CallExpr, bool) {
	for _, ft := range s {
		if ft.Op != "truth" {
			continue
		}
		if c, ok := p.exprIsCallTo(f, ft.X, callee, idx); ok && ft.Val == val {
			return c, true
		}
	}
	return nil, false
}

func (p *Prog) isNilExpr(e ast.Expr) bool {
	if e == nil {
		return false
	}
	if id, ok := unparen(e).(*ast.Ident); ok {
		_, isNil := p.ObjOf(id).(*types.Nil)
		return isNil
	}
	return false
}
