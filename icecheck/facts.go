package main

// Must-facts: forward dataflow over the CFG computing, for every program
// point, the atomic conditions that hold on ALL paths reaching it.

import (
	"go/ast"
	"go/token"
	"go/types"
)

type FactAnalysis struct {
	p  *Prog
	f  *Func
	g  *CFG
	in map[*Block]FactSet
	// cache of fields a fact depends on through its calls
	factFields map[string]map[*types.Var]bool
}

var factCache = map[*Func]*FactAnalysis{}

func (p *Prog) Facts(f *Func) *FactAnalysis {
	if fa, ok := factCache[f]; ok && fa.p == p {
		return fa
	}
	fa := &FactAnalysis{p: p, f: f, g: p.CFG(f), in: map[*Block]FactSet{}, factFields: map[string]map[*types.Var]bool{}}
	fa.run()
	factCache[f] = fa
	return fa
}

func (fa *FactAnalysis) depsFields(f Fact) map[*types.Var]bool {
	if m, ok := fa.factFields[f.Key]; ok {
		return m
	}
	m := map[*types.Var]bool{}
	if f.deps != nil {
		for k := range f.deps.Fields {
			m[k] = true
		}
		for _, c := range f.deps.Calls {
			for k := range fa.p.CallReads(fa.f, c) {
				m[k] = true
			}
		}
	}
	fa.factFields[f.Key] = m
	return m
}

// nodeKills computes what executing n invalidates.
func (fa *FactAnalysis) nodeKills(n ast.Node) (vars map[types.Object]bool, fields map[*types.Var]bool) {
	p := fa.p
	vars = map[types.Object]bool{}
	fields = map[*types.Var]bool{}
	addLhs := func(l ast.Expr) {
		l = unparen(l)
		if id, ok := l.(*ast.Ident); ok {
			if o := p.ObjOf(id); o != nil {
				vars[o] = true
			}
			return
		}
		for _, fv := range p.lhsFields(l) {
			fields[fv] = true
		}
		// writing through an index/star of a local kills facts about that local
		ast.Inspect(l, func(x ast.Node) bool {
			if id, ok := x.(*ast.Ident); ok {
				if o, ok := p.ObjOf(id).(*types.Var); ok && !o.IsField() {
					switch l.(type) {
					case *ast.IndexExpr, *ast.StarExpr:
						vars[o] = true
					}
				}
			}
			return true
		})
	}
	switch x := n.(type) {
	case *RangeAssign:
		if x.Stmt.Key != nil {
			addLhs(x.Stmt.Key)
		}
		if x.Stmt.Value != nil {
			addLhs(x.Stmt.Value)
		}
		return
	case *ast.GoStmt:
		return // runs asynchronously
	case *ast.DeferStmt:
		return // runs at function exit
	}
	ast.Inspect(n, func(x ast.Node) bool {
		switch x := x.(type) {
		case *ast.FuncLit:
			return false
		case *ast.AssignStmt:
			for _, l := range x.Lhs {
				addLhs(l)
			}
		case *ast.IncDecStmt:
			addLhs(x.X)
		case *ast.ValueSpec:
			for _, id := range x.Names {
				if o := p.ObjOf(id); o != nil {
					vars[o] = true
				}
			}
		case *ast.UnaryExpr:
			if x.Op == token.AND {
				// &v passed somewhere: callee may write v
				if id, ok := unparen(x.X).(*ast.Ident); ok {
					if o := p.ObjOf(id); o != nil {
						vars[o] = true
					}
				}
			}
		case *ast.CallExpr:
			for k := range p.CallWrites(fa.f, x) {
				fields[k] = true
			}
			switch p.CalleeName(x) {
			case "builtin.delete", "builtin.clear", "builtin.copy":
				if len(x.Args) > 0 {
					addLhs(x.Args[0])
				}
			}
		}
		return true
	})
	return
}

func (fa *FactAnalysis) transfer(s FactSet, n ast.Node) FactSet {
	vars, fields := fa.nodeKills(n)
	if len(vars) > 0 || len(fields) > 0 {
		for k, f := range s {
			kill := false
			if f.deps != nil {
				for v := range f.deps.Vars {
					if vars[v] {
						kill = true
					}
				}
			}
			if !kill && len(fields) > 0 {
				for fv := range fa.depsFields(f) {
					if fields[fv] {
						kill = true
					}
				}
			}
			if kill {
				delete(s, k)
			}
		}
	}
	// gen: v := x.f (snapshot of a field chain): v is the chain until either is written
	if v, rhs, ok := fa.p.snapshotAlias(fa.f, n); ok {
		id := unparen(n.(*ast.AssignStmt).Lhs[0])
		k := "alias(" + fa.p.Canon(id) + "=" + fa.p.Canon(rhs) + ")"
		_ = v
		s[k] = Fact{Key: k, Val: true, Op: "alias", X: id, Y: rhs, deps: fa.p.MentionsOf(id, rhs)}
	}
	// gen: x = const
	if as, ok := n.(*ast.AssignStmt); ok && (as.Tok == token.ASSIGN || as.Tok == token.DEFINE) && len(as.Lhs) == len(as.Rhs) {
		for i, l := range as.Lhs {
			if fa.p.isConstLike(as.Rhs[i]) {
				if _, isBlank := l.(*ast.Ident); isBlank && l.(*ast.Ident).Name == "_" {
					continue
				}
				f := fa.p.eqFact(l, as.Rhs[i], true)
				f.Key = "assigned" + f.Key
				f.Op = "assigned"
				s[f.Key] = f
				g := fa.p.eqFact(l, as.Rhs[i], true)
				s[g.Key] = g
			}
		}
	}
	return s
}

func meet(a, b FactSet) (FactSet, bool) {
	changed := false
	for k, fa := range a {
		if fb, ok := b[k]; !ok || fb.Val != fa.Val {
			delete(a, k)
			changed = true
		}
	}
	return a, changed
}

func (fa *FactAnalysis) run() {
	g := fa.g
	fa.in[g.Entry] = FactSet{}
	work := []*Block{g.Entry}
	inWork := map[*Block]bool{g.Entry: true}
	for len(work) > 0 {
		b := work[0]
		work = work[1:]
		inWork[b] = false
		out := fa.in[b].clone()
		for _, n := range b.Nodes {
			out = fa.transfer(out, n)
		}
		for _, e := range b.Succs {
			cand := out.clone()
			for _, f := range fa.p.FactsOfCond(e.Cond, e.Val) {
				cand[f.Key] = f
				for _, g := range fa.p.aliasedFacts(out, f) {
					cand[g.Key] = g
				}
			}
			// what a flag variable implies is known on this edge whatever was known before
			for _, f := range fa.p.flagFacts(fa.f, e.Cond, e.Val, 0, false) {
				cand[f.Key] = f
			}
			cur, seen := fa.in[e.To]
			changed := false
			if !seen {
				fa.in[e.To] = cand
				changed = true
			} else {
				fa.in[e.To], changed = meet(cur, cand)
			}
			if changed && !inWork[e.To] {
				work = append(work, e.To)
				inWork[e.To] = true
			}
		}
	}
}

// At returns the facts that hold immediately before node loc.I of loc.B runs.
func (fa *FactAnalysis) At(loc Loc) FactSet {
	in, ok := fa.in[loc.B]
	if !ok {
		return nil // unreachable
	}
	s := in.clone()
	for i := 0; i < loc.I && i < len(loc.B.Nodes); i++ {
		s = fa.transfer(s, loc.B.Nodes[i])
	}
	return s
}

// AtNode returns the must-facts before the statement containing n executes;
// ok is false if n is not part of this function's CFG or is unreachable.
func (fa *FactAnalysis) AtNode(n ast.Node) (FactSet, bool) {
	loc, ok := fa.g.Locate(n)
	if !ok {
		return nil, false
	}
	s := fa.At(loc)
	return s, s != nil
}

// Has reports whether some fact satisfies pred.
func (s FactSet) Has(pred func(f Fact) bool) bool {
	for _, f := range s {
		if pred(f) {
			return true
		}
	}
	return false
}

// ---- fact matchers used by rules ----

// FactIsResultOf: fact says result #idx of a call to callee (qualified name)
// is (for bools) val, or (for ==nil facts) compares to nil with polarity val.
func (p *Prog) exprIsCallTo(f *Func, e ast.Expr, callee string, idx int) (*ast.CallExpr, bool) {
	c, i, ok := p.ResolveCall(f, e)
	if !ok || p.CalleeName(c) != callee {
		return nil, false
	}
	if idx >= 0 && i != idx {
		return nil, false
	}
	return c, true
}

// HasNilErr: facts contain "result idx of call to callee == nil" (val true).
func (p *Prog) HasCallEqNil(s FactSet, f *Func, callee string, idx int, isNil bool) (*ast.CallExpr, bool) {
	for _, ft := range s {
		if ft.Op != "==" || !p.isNilExpr(ft.Y) {
			continue
		}
		if c, ok := p.exprIsCallTo(f, ft.X, callee, idx); ok && ft.Val == isNil {
			return c, true
		}
	}
	return nil, false
}

// HasCallTruth: facts contain "result idx of call to callee" with truth val.
func (p *Prog) HasCallTruth(s FactSet, f *Func, callee string, idx int, val bool) (*ast.CallExpr, bool) {
	for _, ft := range s {
		if ft.Op != "truth" {
			continue
		}
		if c, ok := p.exprIsCallTo(f, ft.X, callee, idx); ok && ft.Val == val {
			return c, true
		}
	}
	return nil, false
}

func (p *Prog) isNilExpr(e ast.Expr) bool {
	if e == nil {
		return false
	}
	if id, ok := unparen(e).(*ast.Ident); ok {
		_, isNil := p.ObjOf(id).(*types.Nil)
		return isNil
	}
	return false
}

// snapshotAlias: n is "v := x.f.g" / "v = x.f.g" — a plain field chain rooted in a
// variable, v a local of this function (not a parameter, not captured-and-assigned
// by a literal, address never taken). Until v, the root or a field of the chain is
// written, a test of v is a test of the chain: naming a snapshot is not a different
// condition.
func (p *Prog) snapshotAlias(f *Func, n ast.Node) (*types.Var, ast.Expr, bool) {
	as, ok := n.(*ast.AssignStmt)
	if !ok || len(as.Lhs) != 1 || len(as.Rhs) != 1 || (as.Tok != token.DEFINE && as.Tok != token.ASSIGN) {
		return nil, nil, false
	}
	id, ok := unparen(as.Lhs[0]).(*ast.Ident)
	if !ok || id.Name == "_" {
		return nil, nil, false
	}
	v, isVar := p.ObjOf(id).(*types.Var)
	if !isVar || v.IsField() || v.Pkg() == nil || v.Parent() == v.Pkg().Scope() {
		return nil, nil, false
	}
	root := f.Root()
	if root.Body == nil || v.Pos() < root.Body.Pos() || p.addrTaken(root, v) {
		return nil, nil, false
	}
	rhs := unparen(as.Rhs[0])
	if _, isSel := rhs.(*ast.SelectorExpr); !isSel {
		return nil, nil, false
	}
	for x := rhs; ; {
		switch y := unparen(x).(type) {
		case *ast.SelectorExpr:
			if fv, ok := p.ObjOf(y.Sel).(*types.Var); !ok || !fv.IsField() {
				return nil, nil, false
			}
			x = y.X
			continue
		case *ast.Ident:
			rv, ok := p.ObjOf(y).(*types.Var)
			if !ok || rv == v {
				return nil, nil, false
			}
			return v, rhs, true
		}
		return nil, nil, false
	}
}

var addrTakenMemo = map[*Func]map[*types.Var]bool{}

// addrTaken: &v appears, or v is assigned inside a function literal other than the one
// that declares it, somewhere in the root function.
func (p *Prog) addrTaken(root *Func, v *types.Var) bool {
	m, ok := addrTakenMemo[root]
	if !ok {
		m = map[*types.Var]bool{}
		addrTakenMemo[root] = m
		if root.Body != nil {
			var lits []*ast.FuncLit
			mark := func(e ast.Expr, always bool) {
				if x, ok := unparen(e).(*ast.Ident); ok {
					if o, ok := p.ObjOf(x).(*types.Var); ok {
						inner := false
						if len(lits) > 0 {
							l := lits[len(lits)-1]
							inner = o.Pos() < l.Pos() || o.Pos() > l.End()
						}
						if always || inner {
							m[o] = true
						}
					}
				}
			}
			var visit func(n ast.Node) bool
			visit = func(n ast.Node) bool {
				switch x := n.(type) {
				case *ast.FuncLit:
					lits = append(lits, x)
					ast.Inspect(x.Body, visit)
					lits = lits[:len(lits)-1]
					return false
				case *ast.UnaryExpr:
					if x.Op == token.AND {
						mark(x.X, true)
					}
				case *ast.AssignStmt:
					if x.Tok != token.DEFINE {
						for _, l := range x.Lhs {
							mark(l, false)
						}
					}
				case *ast.IncDecStmt:
					mark(x.X, false)
				}
				return true
			}
			ast.Inspect(root.Body, visit)
		}
	}
	return m[v]
}

// aliasedFacts: the same fact stated about the field chain a tested local is a live
// snapshot of (alias facts in s).
func (p *Prog) aliasedFacts(s FactSet, f Fact) []Fact {
	if f.Op != "==" && f.Op != "truth" {
		return nil
	}
	chainOf := func(e ast.Expr) ast.Expr {
		id, ok := unparen(e).(*ast.Ident)
		if !ok {
			return nil
		}
		o := p.ObjOf(id)
		for _, a := range s {
			if a.Op == "alias" {
				if aid, ok := a.X.(*ast.Ident); ok && p.ObjOf(aid) == o {
					return a.Y
				}
			}
		}
		return nil
	}
	var out []Fact
	switch f.Op {
	case "==":
		if c := chainOf(f.X); c != nil {
			out = append(out, p.eqFact(c, f.Y, f.Val))
		}
		if f.Y != nil {
			if c := chainOf(f.Y); c != nil {
				out = append(out, p.eqFact(f.X, c, f.Val))
			}
		}
	case "truth":
		if c := chainOf(f.X); c != nil {
			out = append(out, p.factsOfExpr(c, f.Val)...)
		}
	}
	return out
}

func resetAddrTakenMemo() { addrTakenMemo = map[*Func]map[*types.Var]bool{} }
