package main

// icecheck: repository-specific static checker for pion/ice.
//
//	icecheck -property C05 -tier quick|thorough [-repo /repo] [-verif /verif]
//	icecheck -all            (development: run every property, no evidence)
//	icecheck -explain path   (re-derive the obligations of a violation report)

import (
	"encoding/json"
	"flag"
	"fmt"
	"os"
	"runtime/debug"
	"sort"
	"strconv"
	"strings"
)

type propCheck struct {
	ID  string
	Run func(p *Prog, r *Report)
}

var registry = map[string]*propCheck{}

func register(id string, run func(p *Prog, r *Report)) {
	registry[id] = &propCheck{ID: id, Run: run}
}

func loadRepo(repo string, overlay map[string][]byte) (*Prog, error) {
	env := []string{"GOFLAGS=-mod=mod", "GOPROXY=off", "GOWORK=off"}
	p, err := Load(repo, env, overlay)
	if err != nil {
		return nil, err
	}
	// functions no rule knows are inlined into their callers (inline.go); identity on the reference tree
	if os.Getenv("ICECHECK_NOINLINE") == "" {
		q, notes := inlineUnknownHelpers(p, func(ov map[string][]byte) (*Prog, error) { return Load(repo, env, ov) })
		q.InlineNotes = notes
		p = q
	}
	p.Config = "linux/amd64, no build tags, non-test files"
	return p, nil
}

func runProperty(id, tier string, seed int64, repo, verif string, quiet bool) (code int) {
	pc := registry[id]
	if pc == nil {
		fmt.Printf("unknown property %s\n", id)
		return 2
	}
	known, err := loadKnown(verif + "/known_findings.json")
	if err != nil {
		fmt.Println("cannot read known findings:", err)
		return 1
	}
	knownGlobal = known
	var r *Report
	defer func() {
		if x := recover(); x != nil {
			fmt.Printf("internal error while checking %s: %v\n%s\n", id, x, debug.Stack())
			if r == nil {
				r = NewReport(id, tier, seed, nil)
			}
			r.Fatal = append(r.Fatal, fmt.Sprintf("internal panic: %v", x))
			code = r.Finish(verif, known)
		}
	}()
	p, err := loadRepo(repo, nil)
	if err != nil {
		r = NewReport(id, tier, seed, nil)
		r.Fatal = append(r.Fatal, "cannot load/type-check /repo: "+err.Error())
		return r.Finish(verif, known)
	}
	r = NewReport(id, tier, seed, p)
	if len(p.InlineNotes) > 0 {
		r.Extra["helper_inlining"] = p.InlineNotes
		for _, n := range p.InlineNotes {
			fmt.Println("  inlining:", n)
		}
	}
	if p.Normalized > 0 {
		r.Extra["index_loops_read_as_range"] = p.Normalized
	}
	pc.Run(p, r)
	if tier == "thorough" {
		runThorough(id, p, r, repo)
	}
	return r.Finish(verif, known)
}

func main() {
	prop := flag.String("property", "", "property id (C01..C20)")
	tier := flag.String("tier", "", "quick or thorough")
	repo := flag.String("repo", "/repo", "repository under analysis")
	verif := flag.String("verif", "/verif", "verification directory (evidence, known findings)")
	all := flag.Bool("all", false, "run all registered properties")
	explain := flag.String("explain", "", "violation report to re-derive")
	list := flag.Bool("list", false, "list registered properties")
	mut := flag.String("mutants", "", "development: run the overlay catalogue of a property (or 'all')")
	genRef := flag.Bool("gen-refnames", false, "development: print refnames.go for the tree in -repo")
	prb := flag.Bool("probes", false, "development: run the whole-program probes against every property and print what changes")
	flag.Parse()
	verifDirGlobal = *verif

	if *tier == "" {
		*tier = os.Getenv("VERIF_TIER")
	}
	if *tier == "" {
		*tier = "quick"
	}
	var seed int64
	if s := os.Getenv("VERIF_SEED"); s != "" {
		seed, _ = strconv.ParseInt(s, 10, 64)
	}
	if *list {
		var ids []string
		for id := range registry {
			ids = append(ids, id)
		}
		sort.Strings(ids)
		fmt.Println(strings.Join(ids, " "))
		return
	}
	if *mut != "" {
		os.Exit(devMutants(*mut, *repo))
	}
	if *genRef {
		os.Exit(genRefNames(*repo))
	}
	if *prb {
		os.Exit(devProbes(*repo, *verif))
	}
	if *explain != "" {
		b, err := os.ReadFile(*explain)
		if err != nil {
			fmt.Println(err)
			os.Exit(2)
		}
		var v struct {
			Property string `json:"property"`
		}
		_ = json.Unmarshal(b, &v)
		if v.Property == "" {
			fmt.Println("not a violation report")
			os.Exit(2)
		}
		os.Exit(runProperty(v.Property, *tier, seed, *repo, *verif, false))
	}
	if *all {
		var ids []string
		for id := range registry {
			ids = append(ids, id)
		}
		sort.Strings(ids)
		code := 0
		for _, id := range ids {
			if c := runProperty(id, *tier, seed, *repo, *verif, true); c != 0 {
				code = c
			}
		}
		os.Exit(code)
	}
	if *prop == "" {
		flag.Usage()
		os.Exit(2)
	}
	os.Exit(runProperty(*prop, *tier, seed, *repo, *verif, false))
}
