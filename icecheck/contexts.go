package main

// Execution contexts over the call graph: which functions can run inside the
// agent's task loop, during construction, or on an arbitrary goroutine
// (exported API, `go` targets, timer callbacks). Propagated over synchronous
// call edges; closures handed to the loop start the Loop context whatever
// their creator's context is.

import (
	"go/ast"
	"go/token"
	"go/types"
	"sort"
	"strings"
)

const (
	CtxLoop   = "loop"
	CtxConstr = "construction"
	CtxAPI    = "api" // exported entry point on the caller's goroutine
	CtxGo     = "go"  // target of a go statement / timer callback
)

type CtxInfo struct {
	Ctx       map[*Func]map[string]*CallEdge // function -> context -> edge through which it was reached (nil for roots)
	Root      map[*Func]map[string]*Func     // function -> context -> root function
	LoopTasks []*Func
}

var constructionRoots = map[string]bool{"NewAgent": true, "NewAgentWithOptions": true, "newAgentFromConfig": true, "createAgentBase": true, "newAgentWithConfig": true}

func isExportedName(s string) bool { return s != "" && s[0] >= 'A' && s[0] <= 'Z' }

// isAPIRoot: exported function, or exported-named method whose receiver type
// is exported or is embedded (promoted) into an exported type.
func (p *Prog) isAPIRoot(f *Func) bool {
	if f.Decl == nil || f.Pkg != p.Ice && !strings.Contains(f.Pkg.PkgPath, "/internal/taskloop") {
		return false
	}
	if !isExportedName(f.Decl.Name.Name) {
		return false
	}
	if f.Decl.Recv == nil {
		return true
	}
	rt := recvTypeName(f.Decl.Recv.List[0].Type)
	if isExportedName(rt) {
		return true
	}
	// promoted through embedding into an exported type
	for _, pk := range p.Pkgs {
		sc := pk.Types.Scope()
		for _, n := range sc.Names() {
			tn, ok := sc.Lookup(n).(*types.TypeName)
			if !ok || !tn.Exported() {
				continue
			}
			st, ok := tn.Type().Underlying().(*types.Struct)
			if !ok {
				continue
			}
			for i := 0; i < st.NumFields(); i++ {
				if fld := st.Field(i); fld.Embedded() && typeBaseName(fld.Type()) == rt {
					return true
				}
			}
		}
	}
	return false
}

func (p *Prog) Contexts() *CtxInfo {
	g := p.CG()
	ci := &CtxInfo{Ctx: map[*Func]map[string]*CallEdge{}, Root: map[*Func]map[string]*Func{}}
	type item struct {
		f   *Func
		ctx string
	}
	var work []item
	add := func(f *Func, ctx string, via *CallEdge, root *Func) {
		if ci.Ctx[f] == nil {
			ci.Ctx[f] = map[string]*CallEdge{}
			ci.Root[f] = map[string]*Func{}
		}
		if _, ok := ci.Ctx[f][ctx]; ok {
			return
		}
		ci.Ctx[f][ctx] = via
		ci.Root[f][ctx] = root
		work = append(work, item{f, ctx})
	}
	isLoopTask := map[*Func]bool{}
	for _, f := range p.AllFuncs {
		for _, e := range g.Out[f] {
			if e.Kind == "arg" && (e.Via == "taskloop.Loop.Run" || e.Via == "taskloop.New") {
				isLoopTask[e.Callee] = true
			}
		}
	}
	for f := range isLoopTask {
		ci.LoopTasks = append(ci.LoopTasks, f)
	}
	sort.Slice(ci.LoopTasks, func(i, j int) bool { return ci.LoopTasks[i].Name < ci.LoopTasks[j].Name })
	for _, f := range ci.LoopTasks {
		add(f, CtxLoop, nil, f)
	}
	for _, f := range p.AllFuncs {
		if f.Pkg == p.Ice && f.Decl != nil && constructionRoots[f.Name] {
			add(f, CtxConstr, nil, f)
		}
	}
	// agent options: closures of type AgentOption run in construction or, via
	// UpdateOptions, inside the loop
	for _, f := range p.AllFuncs {
		if f.Lit == nil {
			continue
		}
		if t := p.TypeOf(f.Lit); t != nil {
			if sig, ok := t.Underlying().(*types.Signature); ok && sig.Params().Len() == 1 && typeStr(sig.Params().At(0).Type()) == "*ice.Agent" && sig.Results().Len() == 1 {
				if f.Parent != nil && f.Parent.Decl != nil && f.Parent.Decl.Recv == nil && isExportedName(f.Parent.Decl.Name.Name) {
					add(f, CtxConstr, nil, f)
					// options that refuse to run on a constructed agent never run in the loop
					if !p.optionRefusesAfterConstruction(f) {
						add(f, CtxLoop, nil, f)
					}
				}
			}
		}
	}
	for _, f := range p.AllFuncs {
		if constructionRoots[f.Name] && f.Pkg == p.Ice {
			continue
		}
		if p.isAPIRoot(f) {
			add(f, CtxAPI, nil, f)
		}
	}
	// go targets
	for _, f := range p.AllFuncs {
		for _, e := range g.Out[f] {
			if e.Go && !isLoopTask[e.Callee] {
				add(e.Callee, CtxGo, e, e.Callee)
			}
		}
	}
	for len(work) > 0 {
		it := work[len(work)-1]
		work = work[:len(work)-1]
		for _, e := range g.Out[it.f] {
			if e.Go {
				continue
			}
			if isLoopTask[e.Callee] {
				continue // starts the Loop context
			}
			// Construction does not flow through the loop/goroutine boundary
			add(e.Callee, it.ctx, e, ci.Root[it.f][it.ctx])
		}
	}
	return ci
}

// ChainTo renders how f is reached in ctx.
func (ci *CtxInfo) ChainTo(f *Func, ctx string) string {
	var names []string
	for i := 0; f != nil && i < 14; i++ {
		names = append([]string{f.Name}, names...)
		e := ci.Ctx[f][ctx]
		if e == nil {
			break
		}
		f = e.Caller
	}
	return strings.Join(names, " -> ")
}

func (ci *CtxInfo) Has(f *Func, ctx string) bool {
	_, ok := ci.Ctx[f][ctx]
	return ok
}

func (ci *CtxInfo) List(f *Func) []string {
	var out []string
	for c := range ci.Ctx[f] {
		out = append(out, c)
	}
	sort.Strings(out)
	return out
}

// ---- locksets ----

// lockKey names the mutex of a Lock/Unlock call: "Struct.field" for mutex
// fields, "Struct.(embedded)" for embedded mutexes.
func (p *Prog) lockKey(call *ast.CallExpr) (key string, op string) {
	m := p.Callee(call)
	if m == nil || m.Pkg() == nil || m.Pkg().Path() != "sync" {
		return "", ""
	}
	switch m.Name() {
	case "Lock", "RLock":
		op = "lock"
	case "Unlock", "RUnlock":
		op = "unlock"
	default:
		return "", ""
	}
	sel, ok := unparen(call.Fun).(*ast.SelectorExpr)
	if !ok {
		return "", ""
	}
	if fv := p.FieldOf(sel.X); fv != nil {
		return p.FieldName(fv), op
	}
	// embedded mutex: h.Lock() where h is *handlerNotifier
	if t := p.TypeOf(sel.X); t != nil {
		return typeBaseName(t) + ".(embedded mutex)", op
	}
	return "", ""
}

type LockAnalysis struct {
	p        *Prog
	f        *Func
	g        *CFG
	in       map[*Block]map[string]bool
	deferred map[string]bool
}

func (p *Prog) Locks(f *Func) *LockAnalysis {
	la := &LockAnalysis{p: p, f: f, g: p.CFG(f), in: map[*Block]map[string]bool{}, deferred: map[string]bool{}}
	la.run()
	return la
}

func (la *LockAnalysis) transfer(s map[string]bool, n ast.Node) map[string]bool {
	p := la.p
	if d, ok := n.(*ast.DeferStmt); ok {
		if k, op := p.lockKey(d.Call); op == "unlock" {
			la.deferred[k] = true
		}
		// defer func() { ...; mu.Unlock() }()
		if lit, ok := unparen(d.Call.Fun).(*ast.FuncLit); ok {
			ast.Inspect(lit.Body, func(x ast.Node) bool {
				if c, ok := x.(*ast.CallExpr); ok {
					if k, op := p.lockKey(c); op == "unlock" {
						la.deferred[k] = true
					}
				}
				return true
			})
		}
		return s
	}
	if _, ok := n.(*ast.GoStmt); ok {
		return s
	}
	for _, c := range p.NodeCalls(n) {
		k, op := p.lockKey(c)
		switch op {
		case "lock":
			s[k] = true
		case "unlock":
			delete(s, k)
		}
	}
	return s
}

func cloneSet(s map[string]bool) map[string]bool {
	o := map[string]bool{}
	for k := range s {
		o[k] = true
	}
	return o
}

func (la *LockAnalysis) run() {
	g := la.g
	la.in[g.Entry] = map[string]bool{}
	work := []*Block{g.Entry}
	for len(work) > 0 {
		b := work[0]
		work = work[1:]
		out := cloneSet(la.in[b])
		for _, n := range b.Nodes {
			out = la.transfer(out, n)
		}
		for _, e := range b.Succs {
			cur, seen := la.in[e.To]
			if !seen {
				la.in[e.To] = cloneSet(out)
				work = append(work, e.To)
				continue
			}
			changed := false
			for k := range cur {
				if !out[k] {
					delete(cur, k)
					changed = true
				}
			}
			if changed {
				work = append(work, e.To)
			}
		}
	}
}

// At returns the mutexes certainly held just before n executes.
func (la *LockAnalysis) At(n ast.Node) map[string]bool {
	loc, ok := la.g.Locate(n)
	if !ok {
		return nil
	}
	in, ok := la.in[loc.B]
	if !ok {
		return nil
	}
	s := cloneSet(in)
	for i := 0; i < loc.I; i++ {
		s = la.transfer(s, loc.B.Nodes[i])
	}
	// locks acquired earlier inside the same node (e.g. none) ignored
	return s
}

// HeldAt: mutexes held at n, including those every caller holds at the call
// site of f ("caller holds" summary for unexported helpers), to depth 3.
func (p *Prog) HeldAt(f *Func, n ast.Node) map[string]bool {
	s := p.Locks(f).At(n)
	if s == nil {
		s = map[string]bool{}
	}
	for k := range p.heldOnEntry(f, 0) {
		s[k] = true
	}
	return s
}

func (p *Prog) heldOnEntry(f *Func, depth int) map[string]bool {
	if depth > 3 {
		return nil
	}
	// closures executed synchronously inherit the lockset at their creation/call
	callers := p.CG().In[f]
	if len(callers) == 0 || (f.Decl != nil && isExportedName(f.Decl.Name.Name)) {
		return nil
	}
	var inter map[string]bool
	for _, e := range callers {
		if e.Go {
			return nil
		}
		here := p.Locks(e.Caller).At(e.Site)
		if here == nil {
			here = map[string]bool{}
		}
		for k := range p.heldOnEntry(e.Caller, depth+1) {
			here[k] = true
		}
		if inter == nil {
			inter = here
		} else {
			for k := range inter {
				if !here[k] {
					delete(inter, k)
				}
			}
		}
	}
	return inter
}

// optionRefusesAfterConstruction: the option closure starts with
// "if a.constructed { return <error> }".
func (p *Prog) optionRefusesAfterConstruction(f *Func) bool {
	if f.Body == nil || len(f.Body.List) == 0 {
		return false
	}
	// Everything the closure does is done only where Agent.constructed is known to be false; where it is
	// true the closure returns a non-nil error. (Decided on the CFG, so the test may be written as
	// "if a.constructed { return err }", as its negation around the body, or through a named condition.)
	g := p.CFG(f)
	isConstructed := func(val bool) func(Fact) bool {
		return func(ft Fact) bool { return ft.Op == "truth" && ft.Val == val && p.IsField(ft.X, "Agent.constructed") }
	}
	refuses, guarded := false, true
	for _, bl := range g.Blocks {
		for _, n := range bl.Nodes {
			facts := p.DominatingFactList(f, n)
			switch {
			case factListHas(facts, isConstructed(true)):
				if rs, ok := n.(*ast.ReturnStmt); ok && len(rs.Results) == 1 && !p.isNilExpr(rs.Results[0]) {
					refuses = true
				}
			case factListHas(facts, isConstructed(false)):
			default:
				// in front of the test: only the test itself (or naming it) is allowed
				switch x := n.(type) {
				case *ast.AssignStmt:
					if len(x.Rhs) == 1 && pureBoolExpr(x.Rhs[0]) && x.Tok == token.DEFINE {
						continue
					}
					guarded = false
				case ast.Expr:
					if !pureBoolExpr(x) {
						guarded = false
					}
				default:
					guarded = false
				}
			}
		}
	}
	return refuses && guarded
}
