#!/bin/sh
# usage: tools/try_patch.sh <dir-with-patch.diff> [property ...]   development aid: apply the patch in a scratch
# worktree, run the given properties (default all) and print violated/undecided obligations and inliner notes.
export GOFLAGS=-mod=mod GOPROXY=off GOWORK=off
HERE=$(cd "$(dirname "$0")/.." && pwd)
S=$1; shift
W=/tmp/trypatch.$$
git -C /repo worktree add -q --detach "$W" HEAD || exit 2
mkdir -p "$W.ev" && cp "$HERE/known_findings.json" "$W.ev/"
git -C "$W" apply "$S/patch.diff" || { echo "patch does not apply"; }
if [ $# -eq 0 ]; then
  "$HERE/bin/icecheck" -all -tier quick -repo "$W" -verif "$W.ev" 2>&1 | grep -E 'VIOLATED|UNDECIDED|inlin' | cut -c1-${CUT:-300}
else
  for P in "$@"; do "$HERE/bin/icecheck" -property "$P" -tier quick -repo "$W" -verif "$W.ev" 2>&1 | grep -E 'VIOLATED|UNDECIDED|inlin' | cut -c1-${CUT:-300}; done
fi
[ -n "$KEEP" ] && { echo "kept $W"; exit 0; }
git -C /repo worktree remove --force "$W"; rm -rf "$W.ev"
