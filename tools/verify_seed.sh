#!/bin/sh
# usage: verify_seed.sh <seed-dir containing patch.diff, meta.json, demo test> <scratch worktree>
# Confirms: patch applies, builds, vets; full suite passes with it; demo fails with it and passes without.
# Writes <seed-dir>/verify.log and prints a one-line verdict.
export GOFLAGS=-mod=mod GOPROXY=off GOWORK=off
D="$1"; W="$2"
LOG="$D/verify.log"; : > "$LOG"
cd "$W" || exit 2
git checkout -q -- . && git clean -fdq
DEMO=$(python3 -c "import json;m=json.load(open('$D/meta.json'));print(m.get('demo_file',''))")
DDIR=$(python3 -c "import json;m=json.load(open('$D/meta.json'));print(m.get('demo_dir','.') or '.')")
DCMD=$(python3 -c "import json;m=json.load(open('$D/meta.json'));print(m.get('demo_cmd',''))")
DEMOF="$D/$(basename "$DEMO")"
[ -f "$DEMOF" ] || DEMOF=$(ls "$D"/*_test.go | head -1)
echo "demo=$DEMOF dir=$DDIR cmd=$DCMD" >> "$LOG"
cp "$DEMOF" "$W/$DDIR/" || { echo "VERDICT $D no-demo"; exit 1; }
# 1. demo on unchanged tree
(cd "$W/$DDIR" && eval "$DCMD") >> "$LOG" 2>&1; R0=$?
# 2. apply
git apply "$D/patch.diff" >> "$LOG" 2>&1 || { echo "VERDICT $D patch-does-not-apply"; git checkout -q -- .; git clean -fdq; exit 1; }
go build ./... >> "$LOG" 2>&1; RB=$?
go vet ./... >> "$LOG" 2>&1; RV=$?
(cd "$W/$DDIR" && eval "$DCMD") >> "$LOG" 2>&1; R1=$?
rm -f "$W/$DDIR/$(basename "$DEMOF")"
go test -vet=off -count=1 -timeout 25m ./... >> "$LOG" 2>&1; RS=$?
if [ $RS -ne 0 ]; then echo "suite failed once, retrying" >> "$LOG"; go test -vet=off -count=1 -timeout 25m ./... >> "$LOG" 2>&1; RS=$?; fi
git checkout -q -- . && git clean -fdq
echo "VERDICT $D demo_clean=$R0 build=$RB vet=$RV demo_patched=$R1 suite=$RS" | tee -a "$LOG"
[ $R0 -eq 0 ] && [ $RB -eq 0 ] && [ $R1 -ne 0 ] && [ $RS -eq 0 ]
