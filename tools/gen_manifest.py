#!/usr/bin/env python3
"""Regenerates /verif/MANIFEST.json from /verif/claims.json (hand-maintained)."""
import json, os, sys
HERE = os.path.dirname(os.path.dirname(os.path.abspath(__file__)))
claims = json.load(open(os.path.join(HERE, "claims.json")))
props = [json.loads(l) for l in open(os.path.join(HERE, "properties.jsonl"))]
checks, na = [], []
for p in props:
    pid = p["id"]
    c = claims["claimed"].get(pid)
    if c:
        checks.append({
            "property_id": pid,
            "quick_cmd": "./check.sh %s quick" % pid,
            "thorough_cmd": "./check.sh %s thorough" % pid,
            "evidence_file": "/verif/evidence/%s.json" % pid,
            "replay_cmd_template": "./bin/icecheck -explain {path}",
            "engine": "icecheck",
            "level_claimed": {"category": "other", "text": c["text"], "design_ref": c.get("design_ref", "DESIGN.md §4 " + pid)},
            "level_note": c["note"],
            "technique": c["technique"],
        })
    else:
        na.append({"property_id": pid, "reason": claims["not_applicable"].get(pid, claims["default_na_reason"])})
m = {
    "version": 1,
    "setup_cmd": "cd /verif/icecheck && GOFLAGS=-mod=mod GOPROXY=off GOWORK=off go build -o /verif/bin/icecheck .",
    "hooks": {
        "guard": "verif",
        "enable": "none needed: the checks are static analyses of /repo's source; no hook is compiled in (go build -tags verif is identical to the plain build)",
        "baseline_off_cmd": "cd /repo && GOFLAGS=-mod=mod GOPROXY=off GOWORK=off go test -vet=off -count=1 -timeout 25m ./...",
        "source_commits": [],
        "add_only": True,
    },
    "engines": [{
        "name": "icecheck",
        "path": "/verif/icecheck",
        "serves_properties": [c["property_id"] for c in checks],
        "kind_free_text": "repository-specific static analyser (go/packages + go/types; own CFG with labelled edges; must-fact dataflow; decision-table extraction by predicate enumeration; call graph with field-sensitive function values; effect summaries; resource typestate); load-time normalisation and helper inlining; thorough tier adds extra build configurations, checker self-validation by in-memory source overlays, replay of stored seeded and behaviour-preserving changes, and whole-program behaviour-preserving probes",
    }],
    "checks": checks,
    "not_applicable": na,
    "notes": claims.get("notes", ""),
}
json.dump(m, open(os.path.join(HERE, "MANIFEST.json"), "w"), indent=1, ensure_ascii=False)
print("claimed:", len(checks), "not applicable:", len(na))
