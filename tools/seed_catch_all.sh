#!/bin/sh
# usage: tools/seed_catch_all.sh <seed-dir> ...   like seed_catch.sh but runs every property's check (one process)
export GOFLAGS=-mod=mod GOPROXY=off GOWORK=off
HERE=$(cd "$(dirname "$0")/.." && pwd)
W=/tmp/seedcatchall.$$
git -C /repo worktree add -q "$W" HEAD || exit 2
mkdir -p "$W.ev" && cp "$HERE/known_findings.json" "$W.ev/"
for S in "$@"; do
  if ! git -C "$W" apply "$S/patch.diff" 2>/dev/null; then echo "$S patch-does-not-apply"; continue; fi
  fired=$("$HERE/bin/icecheck" -all -tier quick -repo "$W" -verif "$W.ev" 2>&1 | sed -n 's/^ *\(VIOLATED\|UNDECIDED\) \(R[0-9.]*\).*/\2/p' | sort -u | tr '\n' ' ')
  git -C "$W" checkout -q -- . && git -C "$W" clean -fdq
  echo "$S all-properties: ${fired:-none}"
done
git -C /repo worktree remove --force "$W"; rm -rf "$W.ev"
