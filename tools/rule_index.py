#!/usr/bin/env python3
"""Print the rule index (id, instance floor, text) of every property as Markdown,
extracted from the r.Rule(...) declarations of the checker."""
import re, glob
for f in sorted(glob.glob('/verif/icecheck/c[0-9][0-9].go')):
    n = int(re.search(r'c(\d\d)\.go', f).group(1))
    s = open(f).read()
    print("**C%02d**\n" % n)
    for m in re.finditer(r'r\.Rule\("(R[0-9.]+)",\s*"((?:[^"\\]|\\.)*)",\s*(\d+)\)', s):
        print("* %s (floor %s) — %s" % (m.group(1), m.group(3), m.group(2).replace('\\"', '"')))
    print()
