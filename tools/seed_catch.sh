#!/bin/sh
# usage: tools/seed_catch.sh <seed-dir> ...   (each with patch.diff and meta.json)
# Applies each change in a scratch worktree of /repo and reports which rules of its property fire.
export GOFLAGS=-mod=mod GOPROXY=off GOWORK=off
HERE=$(cd "$(dirname "$0")/.." && pwd)
W=/tmp/seedcatch.$$
git -C /repo worktree add -q "$W" HEAD || exit 2
mkdir -p "$W.ev" && cp "$HERE/known_findings.json" "$W.ev/"
for S in "$@"; do
  P=$(python3 -c "import json;print(json.load(open('$S/meta.json'))['property'])")
  if ! git -C "$W" apply "$S/patch.diff" 2>/dev/null; then echo "$S patch-does-not-apply"; continue; fi
  out=$("$HERE/bin/icecheck" -property "$P" -tier quick -repo "$W" -verif "$W.ev" 2>&1)
  fired=$(echo "$out" | sed -n 's/^ *\(VIOLATED\|UNDECIDED\) \(R[0-9.]*\).*/\2/p' | sort -u | tr '\n' ' ')
  weak=$(echo "$out" | sed -n 's/^ *UNDECIDED  *\(anchor:[^ ]*\).*/\1/p' | sort -u | tr '\n' ' ')
  [ -z "$fired" ] && [ -n "$weak" ] && fired="(only: $weak)"
  git -C "$W" checkout -q -- . && git -C "$W" clean -fdq
  if [ -n "$fired" ]; then echo "$S caught by $fired"; else echo "$S MISSED"; fi
done
git -C /repo worktree remove --force "$W"; rm -rf "$W.ev"
