#!/usr/bin/env python3
"""Generate a mutants_cNN.go overlay catalogue from a compact spec.

spec: list of dicts {id, file, old, new, expect | benign, note}; 'old' must occur
exactly once in /repo/<file> (checked here, so stale text is caught when the
catalogue is written rather than when it is run)."""
import json, sys

def emit(prop, specs, out):
    lines = ["package main", "", "func init() {", "\taddMutants("]
    errs = []
    for s in specs:
        src = open("/repo/" + s["file"]).read()
        if src.count(s["old"]) != 1:
            errs.append("%s: old text occurs %d times in %s" % (s["id"], src.count(s["old"]), s["file"]))
    if errs:
        sys.exit("\n".join(errs))
    for s in specs:
        src = open("/repo/" + s["file"]).read()
        n = src.count(s["old"])
        if n != 1:
            sys.exit("%s: old text occurs %d times in %s" % (s["id"], n, s["file"]))
        f = ['ID: %s' % json.dumps(s["id"]), 'Prop: %s' % json.dumps(prop), 'File: %s' % json.dumps(s["file"])]
        if s.get("benign"):
            f.append("Benign: true")
        f.append("Old: %s" % json.dumps(s["old"]))
        f.append("New: %s" % json.dumps(s["new"]))
        if s.get("expect"):
            f.append("Expect: %s" % json.dumps(s["expect"]))
        f.append("Note: %s" % json.dumps(s.get("note", "")))
        lines.append("\t\tMutant{" + ", ".join(f) + "},")
    lines += ["\t)", "}", ""]
    open(out, "w").write("\n".join(lines))
