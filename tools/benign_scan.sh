#!/bin/sh
# usage: tools/benign_scan.sh <dir> ...   each with patch.diff (behaviour-preserving): prints the rules that fire (should be none)
export GOFLAGS=-mod=mod GOPROXY=off GOWORK=off
HERE=$(cd "$(dirname "$0")/.." && pwd)
W=/tmp/benignscan.$$
git -C /repo worktree add -q --detach "$W" HEAD || exit 2
mkdir -p "$W.ev" && cp "$HERE/known_findings.json" "$W.ev/"
for S in "$@"; do
  if ! git -C "$W" apply "$S/patch.diff" 2>/dev/null; then echo "$S patch-does-not-apply"; continue; fi
  out=$("$HERE/bin/icecheck" -all -tier quick -repo "$W" -verif "$W.ev" 2>&1)
  fired=$(echo "$out" | sed -n 's/^ *\(VIOLATED\|UNDECIDED\) \(R[0-9.]*\).*/\2/p' | sort -u | tr '\n' ' ')
  notes=$(echo "$out" | grep 'inlining:' | grep -v 'inlined at its' | sort -u | sed 's/^ *inlining: //' | tr '\n' ';')
  git -C "$W" checkout -q -- . && git -C "$W" clean -fdq
  echo "$S: ${fired:-none} ${notes:+[$notes]}"
done
git -C /repo worktree remove --force "$W"; rm -rf "$W.ev"
