#!/bin/sh
# usage: verify_prop_seeds.sh C04 ...  (uses /tmp/seed/<id> worktree and /tmp/seed/out/<id>/m*)
for P in "$@"; do
  for M in /tmp/seed/out/$P/m*; do
    [ -f "$M/patch.diff" ] || continue
    [ -f "$M/verify.log" ] && grep -q '^VERDICT' "$M/verify.log" && continue
    /verif/tools/verify_seed.sh "$M" /tmp/seed/$P
  done
done
