#!/bin/sh
# Replays every stored seeded change against the check of its property in a
# scratch worktree (never in /repo) and prints which rules fire.
# usage: tools/seed_matrix.sh [seed-id ...]
export GOFLAGS=-mod=mod GOPROXY=off GOWORK=off
HERE=$(cd "$(dirname "$0")/.." && pwd)
W=/tmp/seedmx.$$
git -C /repo worktree add -q "$W" HEAD || exit 2
mkdir -p "$W.ev" && cp "$HERE/known_findings.json" "$W.ev/"
[ -x "$HERE/bin/icecheck" ] || (cd "$HERE/icecheck" && go build -o "$HERE/bin/icecheck" .)
rc=0
for d in ${@:-$(ls "$HERE/seeded")}; do
  S="$HERE/seeded/$d"; P=${d%%-*}
  if grep -q '"obsolete"' "$S/meta.json"; then echo "$d obsolete (made harmless by a later fix: commit, see its meta.json)"; continue; fi
  if ! git -C "$W" apply "$S/patch.diff" 2>/dev/null; then echo "$d patch-does-not-apply"; rc=1; continue; fi
  fired=$("$HERE/bin/icecheck" -property "$P" -tier quick -repo "$W" -verif "$W.ev" 2>&1 | sed -n 's/^ *VIOLATED \(R[0-9.]*\).*/\1/p' | sort -u | tr '\n' ' ')
  git -C "$W" checkout -q -- . && git -C "$W" clean -fdq
  if [ -n "$fired" ]; then echo "$d caught by $fired"; else echo "$d MISSED"; rc=1; fi
done
git -C /repo worktree remove --force "$W"; rm -rf "$W.ev"
exit $rc
